"""
The one virtual wall clock of a worker process.

``install()`` must run before ``puresnmp`` is imported (``puresnmp.util`` does
``from time import time``).  After that every read of ``time.time`` /
``time.monotonic`` made by the library, the virtual event loop and the
reference agent see the same virtual time.  Each read is reported to an
optional observer, which may advance the clock (C07) .
"""

import time as _time

REAL_TIME = _time.time
REAL_MONOTONIC = _time.monotonic
REAL_PERF = _time.perf_counter

EPOCH = 1_700_000_000.0


class VClock:
    def __init__(self):
        self.now = EPOCH
        self.mono = 1000.0
        self.reads = 0
        self.on_read = None  # callable(clock) invoked after every read
        self.tick_per_read = 0.0

    def reset(self, now=EPOCH):
        self.now = now
        self.mono = 1000.0
        self.reads = 0
        self.on_read = None
        self.tick_per_read = 0.0

    def read(self):
        self.reads += 1
        value = self.now
        if self.tick_per_read:
            self.now += self.tick_per_read
        if self.on_read is not None:
            self.on_read(self)
        return value

    def advance(self, delta):
        self.now += delta
        self.mono += delta

    def set_mono(self, when):
        """advance to exactly the monotonic instant *when* (no rounding)"""
        if when > self.mono:
            self.now += when - self.mono
            self.mono = when


CLOCK = VClock()
_installed = False


def _vtime():
    return CLOCK.read()


def _vmono():
    # monotonic reads are not reported as "reads" of the wall clock
    return CLOCK.mono


def install():
    global _installed
    if _installed:
        return
    import sys

    if "puresnmp" in sys.modules:
        raise RuntimeError("clock.install() must precede the import of puresnmp")
    _time.time = _vtime
    _time.monotonic = _vmono
    _installed = True
