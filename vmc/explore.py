"""
Stateless choice-tree explorer (prefix replay, deviation bounding).

A harness is a function ``run(ctx) -> (observation, violations)`` that builds
a fresh world, runs the real code and asks ``ctx.choose(n, label)`` at every
environment decision.  Choice 0 is the default environment answer; any other
choice is a *deviation* (unless the point is declared ``free``).  ``explore``
enumerates every execution whose number of deviations is within the bound.
"""

from .drive import HarnessError


class ReplayDivergence(HarnessError):
    """Replaying a recorded prefix met other decision points than recorded."""


# Divergences that could not be blamed on a violating execution of the same
# tree.  Every execution builds fresh clients, agents and loops, so they mean
# that behaviour depends on what ran earlier in this process: state the code
# under test keeps outside its objects, or a leak of the harness.  They are not
# raised on the spot (a later configuration of the same run may well show the
# violation such state causes); the runner collects them per shard and ends the
# run as a harness error only if the whole run found no violation at all.
DEFERRED = []


class RootOutOfRange(Exception):
    """The root prefix of a shard names an alternative that this
    implementation does not offer (the sub-tree does not exist here; the
    sibling shards cover the alternatives that do)."""


class Ctx:
    __slots__ = ("prefix", "guard", "choices", "points", "costs", "root_len")

    def __init__(self, prefix=(), guard=None, root_len=0):
        self.prefix = prefix
        self.guard = guard  # recorded (label, n) for the prefix positions
        self.root_len = root_len
        self.choices = []
        self.points = []
        self.costs = []

    def choose(self, n, label="", free=False):
        """Environment decision with n alternatives -> 0..n-1."""
        if n <= 0:
            raise HarnessError("choice point %r without alternatives" % (label,))
        i = len(self.choices)
        if i < len(self.prefix):
            c = self.prefix[i]
            if c >= n and i < self.root_len:
                raise RootOutOfRange()
            if c >= n:
                raise ReplayDivergence(
                    "replay divergence at point %d (%r): choice %d of %d"
                    % (i, label, c, n)
                )
            if self.guard is not None and self.guard[i] != (label, n):
                raise ReplayDivergence(
                    "replay divergence at point %d: recorded %r, now %r"
                    % (i, self.guard[i], (label, n))
                )
        else:
            c = 0
        self.choices.append(c)
        self.points.append((label, n))
        self.costs.append(0 if free else 1)
        return c

    def deviations(self):
        return sum(k for c, k in zip(self.choices, self.costs) if c)


class Stats:
    def __init__(self):
        self.executions = 0
        self.nodes = 0  # distinct decision points of the tree
        self.transitions = 0  # decisions executed
        self.observations = {}
        self.max_depth = 0
        self.capped = False
        self.double_runs = 0
        self.max_deviations_seen = 0
        self.root_missing = False

    def merge(self, other):
        self.executions += other.executions
        self.nodes += other.nodes
        self.transitions += other.transitions
        for k, v in other.observations.items():
            self.observations[k] = self.observations.get(k, 0) + v
        self.max_depth = max(self.max_depth, other.max_depth)
        self.capped = self.capped or other.capped
        self.double_runs += other.double_runs
        self.max_deviations_seen = max(
            self.max_deviations_seen, other.max_deviations_seen
        )


def explore(run, bound=None, max_executions=None, double_every=50, on_exec=None, root=()):
    """Enumerate all executions of *run* with at most *bound* deviations
    (None = unbounded).  Returns (Stats, violations) where violations is a list
    of (choices, violation) pairs.

    ``on_exec(ctx, obs, violations)`` is called after every execution.
    """
    stats = Stats()
    found = []
    stack = [(tuple(root), None)]
    root_len = len(root)
    diverged = []
    while stack:
        prefix, guard = stack.pop()
        if max_executions is not None and stats.executions >= max_executions:
            stats.capped = True
            break
        ctx = Ctx(prefix, guard, root_len)
        try:
            obs, violations = run(ctx)
        except RootOutOfRange:
            stats.root_missing = True
            continue
        except ReplayDivergence as exc:
            # see below ("the same choices gave another outcome"): tolerated
            # only next to reported violations
            diverged.append(str(exc))
            continue
        if len(ctx.choices) < len(prefix) and len(prefix) <= root_len:
            # the execution ended before reaching the decision this shard is
            # rooted at: it is the same execution in every sibling shard and
            # is judged in the first one only
            if any(prefix[len(ctx.choices):]):
                stats.root_missing = True
                continue
            prefix = tuple(ctx.choices)
        if len(ctx.choices) < len(prefix):
            # The execution ended before the decisions recorded for this
            # prefix were reached.  With fresh objects per execution that
            # means state outside them changed the behaviour (see the double
            # run below).  The execution is still a complete execution and is
            # judged; without any violation it is a harness error.
            if on_exec is not None:
                on_exec(ctx, obs, violations)
            if not violations:
                DEFERRED.append(
                    "replay divergence: execution ended after %d of %d recorded "
                    "choices" % (len(ctx.choices), len(prefix))
                )
            stats.executions += 1
            for v in violations:
                found.append((tuple(ctx.choices), v))
            continue
        stats.executions += 1
        if double_every and (
            stats.executions % double_every == 1 or violations
        ):
            ctx2 = Ctx(tuple(ctx.choices), list(ctx.points))
            try:
                obs2, violations2 = run(ctx2)
            except ReplayDivergence as exc:
                # the second run of the very same choices met other decision
                # points: behaviour depends on what ran before in this process
                # (tolerated only next to reported violations, see below)
                diverged.append(str(exc))
                obs2, violations2, ctx2 = obs, violations, ctx
            stats.double_runs += 1
            if obs2 != obs or ctx2.choices != ctx.choices or bool(violations2) != bool(
                violations
            ):
                # The same choices gave another outcome.  Every execution
                # builds fresh clients, agents and a fresh loop, so either the
                # harness leaks state between executions (a harness error) or
                # the code under test keeps state outside the objects it is
                # given.  The second run is judged like any other execution:
                # if its outcome violates the oracle it is reported as such;
                # only when neither run violates anything is this a harness
                # error.
                if on_exec is not None:
                    on_exec(ctx2, obs2, violations2)
                    stats.executions += 1
                if not violations2:
                    v1 = list(violations)
                    if on_exec is not None:
                        probe = list(v1)
                        on_exec(ctx, obs, probe)
                        v1 = probe
                    if not v1:
                        DEFERRED.append(
                            "nondeterminism: choices %r gave %r then %r"
                            % (ctx.choices, repr(obs)[:300], repr(obs2)[:300])
                        )
                for v in violations2:
                    v = dict(v)
                    v.setdefault("detail", {})
                    if isinstance(v["detail"], dict):
                        v["detail"] = dict(v["detail"], second_run_of_the_same_schedule=True, first_run_outcome=repr(obs)[:300])
                    found.append((tuple(ctx2.choices), v))
        new_points = len(ctx.choices) - len(prefix)
        stats.nodes += new_points
        stats.transitions += len(ctx.choices)
        stats.max_depth = max(stats.max_depth, len(ctx.choices))
        stats.observations[obs] = stats.observations.get(obs, 0) + 1
        stats.max_deviations_seen = max(stats.max_deviations_seen, ctx.deviations())
        if on_exec is not None:
            on_exec(ctx, obs, violations)
        for v in violations:
            found.append((tuple(ctx.choices), v))
        # schedule the alternatives of every point decided in this execution
        dev = sum(k for c, k in zip(ctx.choices[: len(prefix)], ctx.costs) if c)
        pending = []
        for i in range(len(prefix), len(ctx.choices)):
            n = ctx.points[i][1]
            cost = ctx.costs[i]
            if bound is None or dev + cost <= bound:
                base = tuple(ctx.choices[:i])
                g = ctx.points[: i + 1]
                for alt in range(1, n):
                    pending.append((base + (alt,), g))
            # choices after the prefix are all 0 -> dev unchanged
        # depth-first, lowest alternative of the shallowest point first
        stack.extend(reversed(pending))
    if diverged and not found:
        DEFERRED.append("%d replays diverged and no execution of the tree violated the oracle; first: %s" % (len(diverged), diverged[0]))
    stats.replay_divergences = len(diverged)
    return stats, found


def run_once(run, choices):
    """Replay exactly one execution (no exploration)."""
    ctx = Ctx(tuple(choices), None)
    obs, violations = run(ctx)
    return ctx, obs, violations


def count_leaves(run, root=()):
    """Independent count of the executions below *root* (unbounded
    deviations): plain recursion over "run this prefix, look at the first
    decision after it".  Shares no bookkeeping with ``explore`` and is used as
    its self-check where no closed form fits the implementation at hand."""

    def below(prefix):
        ctx = Ctx(tuple(prefix), None, len(root))
        try:
            run(ctx)
        except RootOutOfRange:
            return 0
        if len(ctx.choices) <= len(prefix):
            if len(ctx.choices) < len(prefix) and any(prefix[len(ctx.choices):]):
                return 0  # judged in the first sibling only
            return 1
        n = ctx.points[len(prefix)][1]
        return sum(below(tuple(prefix) + (alt,)) for alt in range(n))

    return below(tuple(root))
