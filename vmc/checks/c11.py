"""
C11 - USM privacy: the scoped PDU only ever travels as the plug-in's ciphertext.

Enumeration with harness-supplied privacy plug-ins (keyed stream transform
``vstream``, block-padding ``vblock``, recording ``vrecord``) x hash x privacy
passwords x engine ids x operations (including SET of a marker value) x
context names x response sizes x clock advance between discovery and request,
several users in one process in both orders.

Oracle (reference side): the datagram's payload is an OCTET STRING which the
reference decrypts - with the key it derived itself (privacy password localised
to the engine with the user's authentication hash), the boots/time of the
message and the salt found in msgPrivacyParameters - to exactly the intended
scoped PDU (context engine id, context name, PDU); the recording plug-in saw
exactly these arguments; neither the plaintext scoped PDU nor the context name,
the SET marker or the requested OID occur anywhere in the datagram; encrypted
responses (whose boots/time differ from the discovery values) are decrypted
with the parameters found in the message and yield the value sent.
"""

from .. import ops, world
from ..clock import CLOCK
from ..ref import agent as ragent
from ..ref import ber, snmp, usm

PROPERTY = "C11"

MARKER = b"TOP-SECRET-SET-VALUE-0123456789"
CTX = b"confidential-context"
OID = (1, 3, 6, 1, 4, 1, 55555, 7, 1, 0)
OID2 = (1, 3, 6, 1, 4, 1, 55555, 7, 2, 0)

PLUGINS = ("vstream", "vblock", "vrecord", "vsalt16", "vsalt0")
SALT_LEN = {"vstream": 8, "vblock": 8, "vrecord": 8, "vsalt16": 16, "vsalt0": 0}
METHODS = ("md5", "sha1")
PRIVPW = (b"privacy-password-one", b"zz")
ENGINES = (b"\x80\x00\x1f\x88\x04engine-A", b"\x80\x00\x1f\x88\x04engine-B-is-longer-00")
OPS = {
    "get": ("get", OID),
    "set": ("set", OID2, ("str", MARKER)),
    "getnext": ("getnext", OID[:-2]),
    "bulkget": ("bulkget", [], [OID[:-3]], 2),
    "walk": ("walk", OID[:-2]),
}


CTX_ENGINE = b"\x80\x00\x1f\x88\x04engine-behind-a-proxy"


def make(plugin, method, privpw, engine, ctx, size, name=b"privuser", ctx_engine=None):
    from puresnmp.credentials import V3, Auth, Priv

    authpw = b"authentication-password"
    user = usm.User(name, (method, authpw), (plugin, privpw))
    creds = V3(name.decode(), Auth(authpw, method), Priv(privpw, plugin))
    db = {OID: ("str", bytes((i * 7 + 3) % 256 for i in range(size))), OID2: ("str", b"old")}
    ag = ragent.V3Agent(db, [user], engine_id=engine, clock=lambda: CLOCK.now)
    kw = {"engine_id": ctx_engine} if ctx_engine else {}
    client, sender = world.make_client(creds, ag.handle, context_name=ctx, **kw)
    return client, sender, ag, user, db


def lib_plugin(name):
    import importlib

    return importlib.import_module("puresnmp_plugins.priv." + name)


def run_case(case, fresh_clock=True):
    if fresh_clock:
        CLOCK.reset()
        world.reset_plugins()
    plugin, method, engine = case["plugin"], case["method"], ENGINES[case["engine"]]
    privpw = PRIVPW[case["privpw"]]
    ctx = CTX if case["ctx"] else b""
    ctx_engine = CTX_ENGINE if case.get("ctxengine") else None
    client, sender, ag, user, db = make(plugin, method, privpw, engine, ctx, case["size"], ctx_engine=ctx_engine)
    # the agent's clock may tick between reading a request and writing the
    # response: responses then carry another engine time than the request
    ag.time_skew = case.get("skew", 0)
    out = []
    facts = dict(case)

    def bad(kind, **detail):
        out.append({"kind": kind, "detail": {**facts, **detail}, "facts": facts})

    opnames = case["ops"]
    rec = lib_plugin("vrecord") if plugin == "vrecord" else None
    for i, opname in enumerate(opnames):
        if i == 1 and case.get("advance"):
            CLOCK.advance(case["advance"])  # responses now carry another engine time than discovery
        op = OPS["set" if opname == "set-refused" else opname]
        # "set-refused": the agent answers the (encrypted) request with an
        # (encrypted) error response - decrypting it is not a failure
        ag.response_hook = (lambda agent, req, resp: dict(resp, es=17, ei=1, varbinds=list(req["varbinds"]))) if opname == "set-refused" else None
        n0 = len(ag.log)
        if rec is not None:
            del rec.CALLS[:]
        result, exc = ops.run_op(client, op)
        facts["op"] = opname
        facts["exception"] = ops.exc_sig(exc)
        new = [e for e in ag.log[n0:] if not e.get("discovery")]
        if not new:
            bad("nothing-sent")
            continue
        key_ref = user.priv_key(engine)
        for e in new:
            m = e.get("msg")
            raw = e["raw"]
            if m is None:
                bad("request-not-decodable", verdict=e.get("verdict"))
                continue
            if not m["flags"] & 2 or "encrypted" not in m:
                bad("scoped-pdu-sent-in-clear", flags=m["flags"])
                continue
            if e.get("verdict") != "ok":
                bad("reference-cannot-decrypt-or-refuses-request", verdict=e.get("verdict"))
                continue
            # (a) plaintext = the intended scoped PDU
            clear = e["decrypted"]
            sc = m["scoped"]
            if sc["context_engine_id"] != (ctx_engine or engine) or sc["context_name"] != ctx:
                bad("wrong-context-in-plaintext", got=(sc["context_engine_id"], sc["context_name"]))
            pad = e.get("padding", b"")
            if plugin != "vblock" and pad:
                bad("bytes-after-the-scoped-pdu", padding=pad)
            if plugin == "vblock" and (len(pad) >= 8 or pad.strip(b"\x00")):
                bad("unexpected-padding", padding=pad)
            # (b) salt
            if len(m["usm"]["priv"]) != SALT_LEN[plugin]:
                bad("privacy-parameters-are-not-the-plug-in-salt", got=m["usm"]["priv"])
            # (c) nothing in clear on the wire
            # (the head of the scoped PDU is the context engine id, which the
            # security parameters legitimately carry in clear: search for the
            # PDU part instead)
            pdu_raw = sc["pdu"]["node"].raw
            needles = {"plaintext PDU": pdu_raw[:24], "requested OID": ber.enc_oid_content(OID[:-2])}
            if ctx:
                needles["context name"] = ctx
            if opname == "set":
                needles["SET value"] = MARKER
            for what, needle in needles.items():
                if needle and needle in raw:
                    bad("plaintext-visible-on-the-wire", what=what)
            # (d) recording plug-in
            if rec is not None:
                encs = [c for c in rec.CALLS if c[0] == "encrypt"]
                mine = [c for c in encs if c[5] == m["usm"]["priv"]]
                if len(mine) != 1:
                    bad("plug-in-encrypt-not-called-once-for-this-datagram", calls=len(mine))
                else:
                    _, k, eid, boots, time_, salt, data = mine[0]
                    if k != key_ref:
                        bad("plug-in-called-with-wrong-key")
                    if (eid, boots, time_) != (engine, m["usm"]["boots"], m["usm"]["time"]):
                        bad("plug-in-called-with-wrong-engine-parameters", got=(eid, boots, time_))
                    if data != clear:
                        bad("plug-in-encrypted-other-data-than-was-sent")
        # (e) responses
        want = expected_result(opname, db)
        if opname == "set-refused":
            if ops.exc_sig(exc) != "NotWritable":
                bad("encrypted-error-response-not-raised-as-its-error", message=repr(exc)[:200])
        elif exc is not None:
            bad("encrypted-response-not-accepted", message=str(exc)[:200])
        elif want is not None and result != want:
            bad("decrypted-value-differs-from-value-sent", got=result, expected=want)
        if rec is not None and exc is None:
            decs = [c for c in rec.CALLS if c[0] == "decrypt"]
            sent = [e for e in new if "sent" in e]
            for e, c in zip(sent, decs):
                rm = snmp.dec_message(e["sent"])
                if c[1] != key_ref or (c[2], c[3], c[4], c[5]) != (engine, rm["usm"]["boots"], rm["usm"]["time"], rm["usm"]["priv"]):
                    bad("decrypt-not-called-with-the-parameters-of-the-message")
            if len(decs) != len(sent):
                bad("decrypt-calls-do-not-match-responses", calls=len(decs), responses=len(sent))
    return out, len(ag.log)


def expected_result(opname, db):
    if opname == "get":
        return db[OID]
    if opname == "set":
        return ("str", MARKER)
    if opname == "getnext":
        return (OID, db[OID])
    return None


def plan(tier):
    cases = []
    sizes = [0, 1, 5, 50, 100, 126, 127, 128, 255, 300] if tier == "quick" else list(range(0, 140)) + [255, 256, 300, 1000]
    for plugin in PLUGINS:
        for method in METHODS:
            for pp in (0, 1):
                for eng in (0, 1):
                    for ctx in (0, 1):
                        for size in sizes:
                            cases.append(dict(plugin=plugin, method=method, privpw=pp, engine=eng, ctx=ctx, size=size, ops=["get", "set", "get"], advance=5, skew=(size + pp) % 3))
                        cases.append(dict(plugin=plugin, method=method, privpw=pp, engine=eng, ctx=ctx, size=20, ops=["getnext", "bulkget", "walk"], advance=86400, skew=1))
                        cases.append(dict(plugin=plugin, method=method, privpw=pp, engine=eng, ctx=ctx, size=20, ops=["set", "get"], advance=0))
                        # an explicit context engine id (a context behind a
                        # proxy): keys stay localised to the agent's engine
                        cases.append(dict(plugin=plugin, method=method, privpw=pp, engine=eng, ctx=ctx, size=20, ops=["get", "set", "getnext"], advance=3, ctxengine=1))
                        cases.append(dict(plugin=plugin, method=method, privpw=pp, engine=eng, ctx=ctx, size=20, ops=["get", "set-refused", "get"], advance=0))
    return cases


def run_priv_without_auth(acc):
    """credentials with a privacy password but no authentication key cannot be
    honoured (USM has no privacy without authentication): whatever the client
    does, nothing but the discovery probe may leave in clear"""
    from puresnmp.credentials import V3, Priv

    for plugin in ("vstream", "vrecord"):
        for opname in ("get", "set"):
            CLOCK.reset()
            world.reset_plugins()
            user = usm.User(b"carol")
            ag = ragent.V3Agent({OID: ("str", b"v"), OID2: ("str", b"old")}, [user], clock=lambda: CLOCK.now, strict_level=False)
            creds = V3("carol", None, Priv(b"privacy-password-one", plugin))
            client, sender = world.make_client(creds, ag.handle, context_name=CTX)
            result, exc = ops.run_op(client, OPS[opname])
            facts = {"family": "priv-without-auth", "plugin": plugin, "op": opname, "exception": ops.exc_sig(exc)}
            violations = []
            for e in ag.log:
                if e.get("discovery"):
                    continue
                raw = e["raw"]
                leaks = [w for w, needle in (("context name", CTX), ("requested OID", ber.enc_oid_content(OID[:-2])), ("SET value", MARKER)) if needle in raw]
                if leaks:
                    violations.append({"kind": "plaintext-visible-on-the-wire", "detail": {**facts, "what": leaks}, "facts": facts})
                    break
            acc.count(evaluations=1, nontrivial=1, states=1, transitions=len(ag.log), traces=1)
            acc.outcome("ok" if not violations else violations[0]["kind"])
            for v in violations:
                v["case"] = {"priv_without_auth": [plugin, opname]}
                acc.violation(v)
    acc.sample({"family": "privacy password without authentication key: nothing but the discovery probe may leave in clear"})


def shards(tier):
    n = 32
    return [{"tier": tier, "part": i, "of": n} for i in range(n)] + [{"tier": tier, "interleaved": k} for k in range(4)] + [{"tier": tier, "priv_without_auth": True}]


def run_interleaved(k, acc):
    """several users / hashes / engines with the *same* privacy password in
    one process, in both orders (memoised key derivation)"""
    combos = [(m, e) for m in METHODS for e in (0, 1)]
    orders = [combos, list(reversed(combos)), combos[1:] + combos[:1], combos[2:] + combos[:2]]
    CLOCK.reset()
    world.reset_plugins()
    for plugin in ("vstream", "vrecord"):
        for method, eng in orders[k]:
            case = dict(plugin=plugin, method=method, privpw=0, engine=eng, ctx=1, size=30, ops=["get", "set"], advance=0, family="interleaved", order=k)
            violations, nreq = run_case(case, fresh_clock=False)
            acc.count(evaluations=1, nontrivial=1, states=1, transitions=nreq, traces=1)
            acc.outcome("ok" if not violations else violations[0]["kind"])
            for v in violations[:2]:
                v["case"] = {"interleaved": k}
                acc.violation(v)
    acc.sample({"family": "same privacy password under %r in one process" % (orders[k],)})


def run_shard(params, acc):
    if "interleaved" in params:
        run_interleaved(params["interleaved"], acc)
        return
    if params.get("priv_without_auth"):
        run_priv_without_auth(acc)
        return
    for case in plan(params["tier"])[params["part"] :: params["of"]]:
        violations, nreq = run_case(case)
        acc.count(evaluations=1, nontrivial=1, states=1, transitions=nreq, traces=1)
        acc.outcome("ok" if not violations else violations[0]["kind"])
        acc.sample({**case, "exchanges": nreq}, interesting=case["plugin"] == "vrecord")
        seen = set()
        for v in violations:
            if v["kind"] in seen:
                continue
            seen.add(v["kind"])
            v["case"] = case
            acc.violation(v)


def replay(case):
    if "interleaved" in case or "priv_without_auth" in case:
        class A:
            def __init__(self):
                self.v = []
            def count(self, **k): pass
            def outcome(self, *a, **k): pass
            def sample(self, *a, **k): pass
            def violation(self, v): self.v.append(v)
        a = A()
        if "priv_without_auth" in case:
            run_priv_without_auth(a)
        else:
            run_interleaved(case["interleaved"], a)
        return a.v
    return run_case(case)[0]


def meta(tier):
    return {
        "level": "model_checking",
        "rule": "full product: privacy plug-in %r x hash %r x 2 privacy passwords x 2 engine ids x context name (empty / set) x response sizes, each a sequence of operations (get, SET of a marker, get; getnext, bulkget, walk) on one client with a clock advance between discovery and the later requests and an agent whose responses carry an engine time 0..2 s ahead of the request's; plus 4 orders of users sharing one privacy password across hashes and engines in one process; the reference agent decrypts every request with its own key and the recording plug-in reports the arguments it was given; states = cases, transitions = exchanges"
        % (list(PLUGINS), list(METHODS)),
        "exhaustive": True,
        "bounds": {"cases": len(plan(tier))},
        "assumptions": ["the harness plug-ins are deterministic test transforms depending on key, engine id, boots, time and salt - not real ciphers", "semantic equality of the decrypted scoped PDU under the reference decoder (x690 may use the long form for length 127)"],
    }
