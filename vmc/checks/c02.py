"""
C02 - bulk walk returns exactly what the GETNEXT walk returns.

Choice tree over the agent's truncation policy: for every GETBULK the reference
agent computes the full RFC 3416 4.2.3 answer and the explorer chooses how much
of it is sent: everything (default) or any non-empty proper prefix (fewer
repetitions, a partial last row, a partial *first* row, a stop after an
all-endOfMibView row are all prefixes).  A non-full answer is a deviation.

Oracle: the bulk walk yields each instance of the subtree model exactly once,
nothing foreign, equals the real GETNEXT multiwalk of the same roots on the same
agent, is ascending for a single root, and ends within the request horizon.
"""

from .. import explore, ops, scopes, world
from ..ref import agent as ragent
from ..ref import models

PROPERTY = "C02"
N_SHARDS = 64

SIBLING_TRIPLE = ((1, 3, 1), (1, 3, 2), (1, 3, 3))

# reduced universe (9 candidate instances, 6 roots): same order/prefix types
# as scopes.U / scopes.ROOTS without the nested-root family
U2 = [
    (1, 2, 9),
    (1, 3, 1, 1),
    (1, 3, 1, 2),
    (1, 3, 2, 1),
    (1, 3, 2, 2, 1),
    (1, 3, 3, 1),
    (1, 3, 3, 2),
    (1, 3, 10, 1),
    (1, 5, 8),
]
R2 = [(1, 3, 1), (1, 3, 2), (1, 3, 3), (1, 3, 8), (1, 3, 10), (1, 9)]

UNIVERSES = {"U": (scopes.U, scopes.ROOTS), "U2": (U2, R2), "UM": (scopes.UM, scopes.ROOTS_M)}

# a stage = one exhaustively explored sub-scope
STAGES = {
    "quick": [
        dict(name="A", universe="U2", max_db=3, max_roots=2, triples=True, bulk=[1, 2, 3, 10], cut_rows=3, deviations=1),
        # three sibling roots, two truncated answers in one walk (the answer
        # to the first request and the answer to the request that completes it)
        dict(name="F", universe="U2", max_db=3, max_roots=0, triples=True, bulk=[1, 2], cut_rows=1, deviations=2),
        # bulk sizes at the top of the max-repetitions range (the agent answers
        # with what it has; it never sends more than 60 repetitions)
        dict(name="G", universe="U2", max_db=2, max_roots=2, triples=True, bulk=[2**31 - 1, 2**30, 65536], cut_rows=1, deviations=1),
        # multi-octet sub-identifiers (encoded order differs from numeric order)
        dict(name="M", universe="UM", max_db=3, max_roots=2, triples=False, bulk=[1, 2, 10], cut_rows=1, deviations=0),
    ],
    "thorough": [
        dict(name="A", universe="U", max_db=3, max_roots=2, triples=True, bulk=[1, 2, 4, 7, 25], cut_rows=3, deviations=1),
        dict(name="B", universe="U2", max_db=3, max_roots=2, triples=True, bulk=[1, 2, 3], cut_rows=None, deviations=2),
        dict(name="C", universe="U2", max_db=2, max_roots=2, triples=True, bulk=[1, 2, 3, 10], cut_rows=None, deviations=None),
        dict(name="D", universe="U", max_db=4, max_roots=2, triples=False, bulk=[1, 2, 5], cut_rows=1, deviations=1),
        dict(name="E", universe="U2", max_db=3, max_roots=3, triples=False, bulk=[1, 2, 10], cut_rows=2, deviations=1),
        dict(name="F", universe="U2", max_db=4, max_roots=0, triples=True, bulk=[1, 2, 3], cut_rows=2, deviations=3),
        dict(name="G", universe="U2", max_db=3, max_roots=2, triples=True, bulk=[2**31 - 1, 2**30, 2**31 - 2, 65536, 255, 256], cut_rows=1, deviations=1),
        dict(name="M", universe="UM", max_db=4, max_roots=2, triples=False, bulk=[1, 2, 3, 10], cut_rows=1, deviations=1),
    ],
}


# Wide walks: more roots than any plausible per-request limit (16, 20, 32, 40
# OIDs), sibling subtrees 1.3.k of unequal length.  One configuration per
# (number of roots, length pattern, what follows the last subtree, bulk size,
# order in which the roots are listed).
WIDE_N = {"quick": (17, 21, 33, 41), "thorough": (9, 17, 21, 22, 33, 41, 45, 65)}
WIDE_PATTERNS = ("first-long", "last-long", "alternating", "first-chunk-short", "all-two", "one-empty")
WIDE_BULK = (1, 3, 10)


def wide_db(n, pattern, tail):
    sizes = []
    for k in range(1, n + 1):
        if pattern == "first-long":
            sizes.append(12 if k == 1 else 2)
        elif pattern == "last-long":
            sizes.append(12 if k == n else 2)
        elif pattern == "alternating":
            sizes.append(1 if k % 2 else 4)
        elif pattern == "first-chunk-short":
            sizes.append(1 if k <= 16 else 5)
        elif pattern == "all-two":
            sizes.append(2)
        else:  # one-empty
            sizes.append(0 if k == n // 2 else 3)
    db = {(1, 2, 9): ("str", b"before")}
    for k, size in enumerate(sizes, start=1):
        for i in range(1, size + 1):
            db[(1, 3, k, i)] = ("int", 100 * k + i)
    if tail:
        db[(1, 5, 8)] = ("str", b"after")
    roots = tuple((1, 3, k) for k in range(1, n + 1))
    return db, roots


def bounds(tier):
    return {"stages": STAGES[tier], "wide": {"roots": list(WIDE_N[tier]), "patterns": list(WIDE_PATTERNS), "bulk": list(WIDE_BULK), "deviations": 0 if tier == "quick" else 1}}


def root_lists_for(stage):
    from itertools import permutations

    menu = UNIVERSES[stage["universe"]][1]
    lists = scopes.root_lists(stage["max_roots"], menu) if stage["max_roots"] else []
    if stage["triples"] and stage["max_roots"] < 3:
        lists = lists + list(permutations(SIBLING_TRIPLE))
    return lists


def shards(tier):
    out = []
    for si, stage in enumerate(STAGES[tier]):
        uni = UNIVERSES[stage["universe"]][0]
        dbs = list(scopes.databases(stage["max_db"], uni))
        dbs.sort(key=lambda d: (hash(d) % 9973, d))
        n = max(16, min(64, len(dbs) // 4))
        out.extend({"dbs": chunk, "tier": tier, "stage": si} for chunk in scopes.chunks(dbs, n))
    for n in WIDE_N[tier]:
        for pattern in WIDE_PATTERNS:
            out.append({"wide": True, "n": n, "pattern": pattern, "tier": tier})
    return out


def creds():
    from puresnmp.credentials import V2C

    return V2C("public")


def make_run(db, roots, bulk, client, cut_rows=None):
    below, equal = models.subtree(db, roots)
    horizon = (len(db) + 2) * len(roots) + 4

    shared = client

    def run(ctx):
        # a fresh client per execution (whatever state an implementation keeps
        # on its client cannot make executions depend on one another), unless
        # the caller passes the long-lived client of the history pass
        client = shared if shared is not None else world.make_client(creds(), lambda p: b"")[0]
        ag = ragent.Agent(db)
        info_log = []

        def cut(agent, head, rows, info):
            full = head + [vb for row in rows for vb in row]
            if len(full) <= 1:
                info_log.append((len(full), len(full)))
                return full
            nalt = len(full)
            if cut_rows is not None:
                nalt = min(nalt, cut_rows * max(info["r"], 1) + 1)
            k = ctx.choose(nalt, "cut")
            # 0 = full answer; k>0 = prefix of k bindings (1..len-1)
            out = full if k == 0 else full[:k]
            info_log.append((len(full), len(out)))
            return out

        ag.bulk_cut = cut
        sender = world.sender_of(client)
        sender.handle = ag.handle
        sender.calls = []
        sender.limit = horizon + 2 * ctx_deviation_allowance(ctx)
        try:
            result, exc = ops.run_op(client, ("bulkwalk", list(roots), bulk))
        except world.Horizon as hz:
            result, exc = None, hz
        nreq = len(ag.log)
        violations = []
        facts = {
            "db": sorted(db),
            "roots": list(roots),
            "bulk": bulk,
            "cuts": list(info_log),
            "expected": sorted(below),
            "requests": nreq,
            "partial_first_row": any(sent < len(roots) and sent < full for full, sent in info_log[:1]),
        }

        def bad(kind, **detail):
            violations.append({"kind": kind, "detail": {**facts, **detail}, "facts": facts})

        if isinstance(exc, world.Horizon):
            bad("no-termination-within-horizon", horizon=horizon)
        elif exc is not None:
            bad("bulkwalk-raised", exception=type(exc).__name__, message=str(exc)[:200])
        else:
            got = [o for o, _ in result]
            gs = set(got)
            if len(gs) != len(got):
                bad("instance-yielded-twice", got=got)
            if below - gs:
                bad("instances-missing", missing=sorted(below - gs), got=got)
            if gs - below - equal:
                bad("foreign-instance-yielded", foreign=sorted(gs - below - equal), got=got)
            for o, v in result:
                if o in db and v != db[o]:
                    bad("wrong-value", oid=o, got=v, expected=db[o])
                    break
            if len(roots) == 1 and got != sorted(got):
                bad("not-ascending", got=got)
        obs = (ops.exc_sig(exc), frozenset(o for o, _ in result) if result is not None else None)
        multi_col = any(full > 1 for full, _ in info_log) and len(roots) > 1
        truncated = any(sent < full for full, sent in info_log)
        return (obs, multi_col or truncated, nreq), violations

    return run


def ctx_deviation_allowance(ctx):
    return len(ctx.prefix)


def getnext_walk(db, roots, client):
    ag = ragent.Agent(db)
    sender = world.sender_of(client)
    sender.handle = ag.handle
    sender.calls = []
    sender.limit = len(db) + len(roots) + 3
    try:
        result, exc = ops.run_op(client, ("multiwalk", list(roots)))
    except world.Horizon as hz:
        result, exc = None, hz
    return result, exc


def explore_config(stage, db_idx, roots, bulk, client, acc, ref_cache, params=None, db=None):
    bound = stage["deviations"]
    if db is None:
        db = scopes.db_from_indices(db_idx, UNIVERSES[stage["universe"]][0])
    run = make_run(db, roots, bulk, None, stage["cut_rows"])
    key = frozenset(roots)
    if key not in ref_cache:
        ref_cache[key] = getnext_walk(db, roots, client)
    ref_result, ref_exc = ref_cache[key]
    ref_set = frozenset(o for o, _ in ref_result) if ref_result is not None and ref_exc is None else None
    case = {"db": sorted(db), "roots": [list(r) for r in roots], "bulk": bulk, "cut_rows": stage["cut_rows"]}
    if stage.get("wide"):
        case = {"wide": stage["wide"], "roots_reversed": roots[0] > roots[-1], "bulk": bulk, "cut_rows": stage["cut_rows"]}

    def on_exec(ctx, obs_all, violations):
        obs, nontrivial, nreq = obs_all
        acc.count(evaluations=1, nontrivial=1 if nontrivial else 0, traces=1)
        acc.outcome("ok" if not violations else violations[0]["kind"])
        if nontrivial:
            acc.sample(
                {"db": sorted(db), "roots": roots, "bulk": bulk, "cut_choices": list(ctx.choices), "requests": nreq, "yielded": sorted(obs[1]) if obs[1] is not None else None},
                interesting=any(ctx.choices) and len(roots) > 1,
            )
        if ref_set is not None and obs[0] is None and obs[1] != ref_set and not violations:
            below, equal = models.subtree(db, roots)
            # both satisfy the subtree model, so they may differ only in
            # instances equal to a root; "exactly the same set" is demanded
            violations.append(
                {
                    "kind": "differs-from-getnext-walk",
                    "detail": {"db": sorted(db), "roots": list(roots), "bulk": bulk, "bulk_got": sorted(obs[1]), "getnext_got": sorted(ref_set)},
                    "facts": {"db": sorted(db), "roots": list(roots), "bulk": bulk},
                }
            )

    stats, found = explore.explore(run, bound=bound, on_exec=on_exec, double_every=200)
    # history pass: the same walk (conformant agent, full answers) once more on
    # the shard's long-lived client, which has served every earlier
    # configuration of the shard - what it did before must not matter
    _, obs_all, violations = explore.run_once(make_run(db, roots, bulk, client, stage["cut_rows"]), ())
    violations = list(violations)
    on_exec(explore.Ctx(()), obs_all, violations)
    for v in violations:
        v = dict(v)
        v["detail"] = dict(v.get("detail") or {}, on_a_client_that_served_earlier_walks=True)
        v["history_pass"] = True
        found.append(((), v))
    acc.bump("history_pass_walks", 1)
    acc.count(evaluations=0, states=stats.nodes + stats.executions, transitions=stats.transitions)
    acc.maxi("max_depth", stats.max_depth)
    acc.bump("double_runs", stats.double_runs)
    seen = set()
    for choices, v in found:
        v = dict(v)
        v["case"] = {**case, "choices": list(choices)}
        if v.pop("history_pass", False):
            v["case"]["history_pass_of_shard"] = {k2: params[k2] for k2 in ("dbs", "tier", "stage")} if params else None
        k = (v["kind"], tuple(v["facts"].get("cuts", ()))[:2])
        if k in seen:
            continue
        seen.add(k)
        acc.violation(v)
        if len(seen) > 3:
            break


def run_wide(params, acc):
    client, _ = world.make_client(creds(), lambda p: b"")
    for tail in (False, True):
        db, roots = wide_db(params["n"], params["pattern"], tail)
        stage = {"deviations": 0 if params["tier"] == "quick" else 1, "cut_rows": 1, "wide": [params["n"], params["pattern"], tail]}
        for order in (roots, tuple(reversed(roots))):
            ref_cache = {}
            for bulk in WIDE_BULK:
                explore_config(stage, None, order, bulk, client, acc, ref_cache, None, db=db)
    acc.bump("wide_configs", 2 * 2 * len(WIDE_BULK))


def run_shard(params, acc):
    if params.get("wide"):
        run_wide(params, acc)
        return
    stage = STAGES[params["tier"]][params["stage"]]
    client, _ = world.make_client(creds(), lambda p: b"")
    lists = root_lists_for(stage)
    for db_idx in params["dbs"]:
        db_idx = tuple(db_idx)
        ref_cache = {}
        for roots in lists:
            for bulk in stage["bulk"]:
                explore_config(stage, db_idx, roots, bulk, client, acc, ref_cache, params)
    acc.bump("stage_%s_configs" % stage["name"], len(params["dbs"]) * len(lists) * len(stage["bulk"]))


def _values(oids):
    # the value of an instance only depends on its position in its universe
    out = {}
    for uni, _ in UNIVERSES.values():
        full = scopes.db_from_indices(range(len(uni)), uni)
        for o in oids:
            if tuple(o) in full and tuple(o) not in out:
                out[tuple(o)] = full[tuple(o)]
    return out


def replay_history(case):
    """the history pass of the shard up to the failing configuration: default
    executions of every configuration, in order, on one long-lived client"""
    params = case["history_pass_of_shard"]
    stage = STAGES[params["tier"]][params["stage"]]
    client, _ = world.make_client(creds(), lambda p: b"")
    target = (sorted(tuple(o) for o in case["db"]), [tuple(r) for r in case["roots"]], case["bulk"])
    for db_idx in params["dbs"]:
        db = scopes.db_from_indices(tuple(db_idx), UNIVERSES[stage["universe"]][0])
        for roots in root_lists_for(stage):
            for bulk in stage["bulk"]:
                _, obs_all, violations = explore.run_once(make_run(db, roots, bulk, client, stage["cut_rows"]), ())
                if (sorted(db), [tuple(r) for r in roots], bulk) == target:
                    return violations
    return []


def replay(case):
    if case.get("history_pass_of_shard"):
        return replay_history(case)
    client, _ = world.make_client(creds(), lambda p: b"")
    if case.get("wide"):
        db, roots = wide_db(*case["wide"])
        if case.get("roots_reversed"):
            roots = tuple(reversed(roots))
    else:
        db = _values(case["db"])
        roots = tuple(tuple(r) for r in case["roots"])
    run = make_run(db, roots, case["bulk"], None, case.get("cut_rows"))
    _, obs_all, violations = explore.run_once(run, case["choices"])
    ref_result, ref_exc = getnext_walk(db, roots, client)
    if ref_exc is None and obs_all[0][0] is None and not violations:
        if obs_all[0][1] != frozenset(o for o, _ in ref_result):
            violations.append({"kind": "differs-from-getnext-walk", "detail": {"bulk_got": sorted(obs_all[0][1]), "getnext_got": sorted(o for o, _ in ref_result)}})
    return violations


def meta(tier):
    b = bounds(tier)
    return {
        "level": "model_checking",
        "rule": "choice tree per configuration (database x ordered disjoint root list x bulk size): at every GETBULK the agent sends the full RFC 3416 answer (default) or a non-empty proper prefix of it (deviation; all prefixes, or all prefixes ending within the first cut_rows repetitions where a stage says so); stages (each explored exhaustively within its deviation bound, None = unbounded): %s; every execution is the real Client.bulkwalk on a fresh client against the reference agent (plus, per configuration, the default execution on a long-lived client that served all earlier configurations of its shard), compared with the subtree model and with the real Client.multiwalk; non-trivial = some answer carried several bindings for several columns or was truncated"
        % (b["stages"],),
        "exhaustive": True,
        "bounds": b,
        "assumptions": [
            "conformant agent = reference agent; a conformant truncation is any non-empty prefix of the full answer",
            "v2c envelope (v3 changes the envelope only; covered by C10/C11)",
        ],
    }
