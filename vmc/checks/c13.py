"""
C13 - UDP sender: bounded retries, exact timeout behaviour, no socket left open.

Choice tree on the virtual-time loop: the real ``send_udp`` /
``SNMPClientProtocol`` run on ``VLoop`` with fake datagram transports; at every
``sendto`` (one per attempt) the explorer chooses the network outcome of that
attempt.  Unbounded deviations (the tree is finite: at most 8^retries leaves).

Oracle: reference model of the retry loop (below) for result / Timeout,
instant and number of sends; in *every* leaf: at most `retries` sends, all
payloads identical to the request, every transport created by the call has
had close() or abort() called once the task is done and the loop has gone
idle, no timer of the call remains scheduled.
"""

import gc
from ipaddress import ip_address

from .. import explore, world
from ..clock import CLOCK
from ..vloop import Stalled, VLoop

PROPERTY = "C13"

OUTCOMES = (
    "reply",  # reply after delta < timeout (default)
    "none",  # no reply
    "reply@timeout-before-timer",  # datagram and timer due at the same instant, datagram first
    "reply@timeout-after-timer",  # ... timer first
    "late-reply",  # reply after the timeout
    "two-replies",  # two datagrams, delta apart
    "icmp",  # error_received(ConnectionRefusedError)
    "lost",  # connection_lost(OSError)
    "icmp+reply",  # ICMP error and a reply in the same loop iteration
    "cancel",  # the caller cancels the call while it waits
    "empty-reply",  # a zero-length datagram is a reply too
    "send-error",  # the OS refuses the datagram: error_received() is called from inside sendto()
)
REQUEST = bytes.fromhex("302602010104067075626c6963a01902047f000001020100020100300b300906052b060102010500")
REPLY = b"\x30\x03reply-%d"


def configs(tier):
    if tier == "quick":
        return [(r, t) for r in (1, 2, 3, 4) for t in (0.5, 2)]
    return [(r, t) for r in (1, 2, 3, 4, 5, 6) for t in (0.5, 2, 6)]


def make_run(retries, timeout, setup=0, ipv6=False):
    """setup: (virtual) seconds every create_datagram_endpoint() takes - time
    that passes outside the per-attempt wait"""
    from puresnmp.transport import Endpoint, send_udp

    delta = timeout / 4

    def run(ctx):
        CLOCK.reset()
        loop = VLoop()
        loop.endpoint_delay = setup
        chosen = []
        injected = set()
        after = set()
        order = {}
        t0 = CLOCK.mono
        events = []  # what really happened: (instant, kind, payload, delivered to an open socket, origin outcome)

        def datagram(tr, payload, origin):
            live = not task.done()
            ok = tr.inject_datagram(payload)
            events.append((CLOCK.mono - t0, "datagram", payload, bool(ok) and live, origin))

        def os_error(tr, exc, origin, lost=False):
            live = not task.done()
            ok = tr.inject_connection_lost(exc) if lost else tr.inject_error(exc)
            events.append((CLOCK.mono - t0, "os-error", type(exc).__name__, bool(ok) and live, origin))

        def cancel(origin):
            live = not task.done()
            task.cancel()
            events.append((CLOCK.mono - t0, "cancel", None, live, origin))

        def on_sendto(tr, data):
            i = len(chosen)
            if i >= retries + 2:
                # horizon: the call keeps transmitting beyond its budget; no
                # further environment choices, the attempt stays unanswered
                # and the call is cancelled
                chosen.append("beyond-horizon")
                loop.call_soon(task.cancel)
                return
            k = ctx.choose(len(OUTCOMES), "attempt%d" % i)
            o = OUTCOMES[k]
            chosen.append(o)
            now = CLOCK.mono
            reply = REPLY % i

            def at(when, fn, after_timer=False):
                h = loop.call_at(when, fn)
                injected.add(h)
                order[h] = len(order)
                if after_timer:
                    after.add(h)
                return h

            if o == "reply":
                at(now + delta, lambda: datagram(tr, reply, o))
            elif o == "two-replies":
                at(now + delta, lambda: datagram(tr, reply, o))
                at(now + delta + delta / 2, lambda: datagram(tr, b"second", o))
            elif o == "late-reply":
                at(now + timeout + delta, lambda: datagram(tr, reply, o))
            elif o == "reply@timeout-before-timer":
                at(now + timeout, lambda: datagram(tr, reply, o))
            elif o == "reply@timeout-after-timer":
                # selector events of the next iteration run after the task
                # wake-up that the timer queued
                at(now + timeout, lambda: loop.call_soon(datagram, tr, reply, o), after_timer=True)
            elif o == "icmp":
                at(now + delta, lambda: os_error(tr, ConnectionRefusedError(111, "Connection refused"), o))
            elif o == "lost":
                at(now + delta, lambda: os_error(tr, OSError(5, "Input/output error"), o, lost=True))
            elif o == "icmp+reply":
                at(now + delta, lambda: os_error(tr, ConnectionRefusedError(111, "Connection refused"), o))
                at(now + delta, lambda: loop.call_soon(datagram, tr, reply, o))
            elif o == "cancel":
                at(now + delta, lambda: cancel(o))
            elif o == "empty-reply":
                at(now + delta, lambda: datagram(tr, b"", o))
            elif o == "send-error":
                # what asyncio's datagram transport does when send() raises
                # (EMSGSIZE, ENETUNREACH ...): synchronously, before sendto()
                # returns to connection_made()
                live = not task.done()
                ok = tr.inject_error(OSError(90, "Message too long"))
                events.append((CLOCK.mono - t0, "os-error", "OSError", bool(ok) and live, o))

        def tie_break(due):
            mine_first = sorted([h for h in due if h in injected and h not in after], key=order.get)
            lib = [h for h in due if h not in injected]
            mine_last = sorted([h for h in due if h in after], key=order.get)
            return mine_first + lib + mine_last

        loop.on_sendto = on_sendto
        loop.tie_break = tie_break
        result = exc = None
        done_at = None
        stalled = False
        with loop.running():
            task = loop.create_task(send_udp(Endpoint(ip_address("2001:db8::1" if ipv6 else "192.0.2.1"), 161), REQUEST, timeout=timeout, retries=retries))

            def mark(_):
                nonlocal done_at
                done_at = CLOCK.mono - t0

            task.add_done_callback(mark)
            try:
                loop.run_until_idle(horizon=t0 + (retries + 3) * (timeout + setup) + 10)
            except Stalled:
                stalled = True
            if task.done():
                if task.cancelled():
                    exc = "cancelled"
                elif task.exception() is not None:
                    exc = task.exception()
                else:
                    result = task.result()
            leftover = [h for h in loop.pending_timers() if h not in injected]
            unclosed = [i for i, tr in enumerate(loop.transports) if not tr.close_calls]
            sends = sorted(((at, p, i) for i, tr in enumerate(loop.transports) for at, p, _ in tr.sent), key=lambda x: x[0])
            if not task.done():
                task.cancel()
                try:
                    loop.run_until_idle(horizon=CLOCK.mono + 1)
                except Stalled:
                    pass
        task_done = done_at is not None
        del task
        gc.collect()
        logged = [str(c.get("message")) + ": " + repr(c.get("exception")) for c in loop.logged]
        loop.close()

        violations = judge(retries, timeout, delta, chosen, result, exc, done_at, task_done, sends, unclosed, leftover, logged, events, t0, setup)
        ename = type(exc).__name__ if isinstance(exc, BaseException) else exc
        obs = (ename, result, done_at, len(sends), len(unclosed), len(logged))
        return obs, violations

    return run


def judge(retries, timeout, delta, chosen, result, exc, done_at, task_done, sends, unclosed, leftover, logged, events, t0=0.0, setup=0):
    """The oracle is phrased over what *really happened* - the datagrams and
    errors that reached a socket the call still had open, in order - not over
    an assumed structure of the sender (one socket per attempt or one for all
    of them, how it waits): 'returns the first reply's bytes unmodified as
    soon as it arrives ... raises Timeout after exactly `retries` unanswered
    attempts' reads the same for every such structure."""
    out = []
    ename = type(exc).__name__ if isinstance(exc, BaseException) else exc
    facts = {"retries": retries, "timeout": timeout, "outcomes": list(chosen), "exception": ename, "result": result, "done_at": done_at, "sends": len(sends),
             "os_error_outcome": any(o in ("icmp", "lost", "icmp+reply", "send-error") for o in chosen),
             "events": [(t, k, d, o) for t, k, p, d, o in events][:12]}

    def bad(kind, **detail):
        out.append({"kind": kind, "detail": {**facts, **detail}, "facts": facts})

    if not task_done:
        bad("call-never-completes")
        return out
    # ---- safety clauses, every leaf -------------------------------------
    if len(sends) > retries:
        bad("more-sends-than-retries")
    if any(p != REQUEST for _, p, _ in sends):
        bad("retransmission-differs-from-request")
    if unclosed:
        bad("transport-left-open", unclosed_transports=unclosed)
    if leftover:
        bad("timer-left-scheduled", timers=len(leftover))
    if not sends:
        bad("nothing-sent")
        return out
    # every transmission after the first starts exactly when the attempt
    # before it has had its `timeout` seconds
    # (plus the time it took to set a new socket up, where one was set up)
    for k in range(1, len(sends)):
        gap = sends[k][0] - sends[k - 1][0]
        if gap != timeout + (setup if sends[k][2] != sends[k - 1][2] else 0):
            bad("retransmission-at-wrong-instant", attempt=k + 1, at=sends[k][0] - t0, gap=gap)
            break
    # ---- the ending: walk what reached the call, in order ------------------
    for t, kind, payload, delivered, origin in events:
        if not delivered:
            continue  # arrived at a closed socket / after the call had ended
        if kind == "datagram":
            returned = ename is None and result == payload and done_at == t
            if origin == "reply@timeout-before-timer" and not returned:
                continue  # exactly at the timeout instant: may count as unanswered
            if not returned and ename == "cancelled" and any(k2 == "cancel" and d2 and t2 == t for t2, k2, _, d2, _ in events):
                return out  # cancelled in the same loop iteration, before the call could take the reply
            if not returned:
                bad("wrong-reply-returned" if ename is None and result is not None else "reply-in-time-not-returned-at-once", arrived_at=t, expected=payload)
            return out
        if kind == "cancel":
            # the statement is silent about when a cancelled call ends; it
            # must end cancelled, and the safety clauses above hold
            if ename != "cancelled":
                bad("cancellation-not-honoured", at=t)
            return out
        if kind == "os-error":
            # no result prescribed: propagate the OS error (then at once) or
            # count the attempt as unanswered
            if isinstance(exc, OSError):
                if done_at != t:
                    continue
                return out
    # nothing answered: Timeout after exactly `retries` attempts of `timeout` seconds
    if isinstance(exc, OSError):
        bad("os-error-at-wrong-instant")
    elif ename != "Timeout":
        bad("timeout-not-raised")
    elif len(sends) != retries:
        bad("gave-up-before-retries-exhausted" if len(sends) < retries else "timeout-after-wrong-number-of-sends")
    elif done_at != (sends[-1][0] - t0) + timeout:
        bad("timeout-at-wrong-instant", expected_at=(sends[-1][0] - t0) + timeout)
    return out


def run_loopback(acc):
    """Conformance of the fake transport: the same outcome sequences on real
    loopback sockets (separate process, stock selector loop, no virtual
    clock); only order-insensitive observables are compared."""
    import json
    import os
    import subprocess
    import sys

    env = {k: v for k, v in os.environ.items()}
    verif = os.path.dirname(os.path.dirname(os.path.dirname(os.path.abspath(__file__))))
    try:
        proc = subprocess.run([sys.executable, "-m", "vmc.loopback_c13", world.REPO_SRC], cwd=verif, env=env, stdout=subprocess.PIPE, stderr=subprocess.PIPE, timeout=120)
        doc = json.loads(proc.stdout.decode() or "{}")
    except Exception as exc:  # noqa
        doc = {"skipped": repr(exc)}
    if "results" not in doc:
        acc.extra["loopback_pass"] = "skipped: %s" % (doc.get("skipped") or "no output")
        acc.count(evaluations=1, nontrivial=0)
        return
    index = {"reply": 0, "none": 1, "two-replies": 5, "icmp": 6, "send-error": OUTCOMES.index("send-error")}
    disagreements = []
    for r in doc["results"]:
        seq, retries = r["sequence"], r["retries"]
        run = make_run(retries, 0.5)
        choices = [index[o] for o in seq]
        if seq == ["icmp"] and retries > 1:
            choices = [6] * retries
        ctx, obs, violations = explore.run_once(run, tuple(choices))
        ename, result, done_at, nsends, unclosed, logged = obs
        fake_kind = "result" if ename is None else "exception"
        fake_exc = None if ename is None else ("OSError" if ename in ("ConnectionRefusedError", "OSError") else ename)
        real_kind, real_val = r["outcome"]
        same = fake_kind == real_kind
        if same and real_kind == "exception":
            same = fake_exc == real_val
        if same and real_kind == "result":
            same = result[-1:] == real_val.encode("latin1")[-1:]  # index of the answered attempt
        if r["datagrams_received_by_peer"] is not None:
            same = same and r["datagrams_received_by_peer"] == nsends
            same = same and r["payloads_identical"] is True
        same = same and (r["fds_left_open"] > 0) == (unclosed > 0)
        acc.count(evaluations=1, nontrivial=1, states=1, transitions=nsends, traces=1)
        acc.outcome("loopback-agrees" if same else "loopback-disagrees")
        if not same:
            disagreements.append({"real": r, "fake": {"outcome": ename or "result", "sends": nsends, "unclosed": unclosed}})
    acc.extra["loopback_pass"] = "%d sequences compared with real loopback sockets, %d disagreements" % (len(doc["results"]), len(disagreements))
    acc.sample({"family": "loopback conformance", "sequences": [r["sequence"] for r in doc["results"]]})
    if disagreements:
        raise world.HarnessError("fake datagram transport disagrees with real sockets: %r" % disagreements[:2])


CLIENT_HOWS = ("default", "configure", "configure+credentials", "reconfigure", "reconfigure+credentials", "configure-then-credentials")


def run_client_family(acc):
    """the sender as the Client uses it: the retry budget and the timeout that
    were configured - in whichever way - are the ones the default UDP sender
    runs with.  One execution per (way of configuring, retries, timeout,
    attempt that is answered or none)."""
    from puresnmp import Client
    from puresnmp.credentials import V1, V2C

    from ..ref import agent as ragent

    OID = (1, 3, 6, 1, 2, 1, 1, 5, 0)
    for how in CLIENT_HOWS:
        for retries, timeout in ((2, 0.5), (3, 2), (1, 0.25)):
            if how == "default":
                retries, timeout = 10, 6
            for answered in (None, 1, retries):
                CLOCK.reset()
                loop = VLoop()
                ag = ragent.Agent({OID: ("str", b"host")})
                ag.check_community = False
                sends = []

                def on_sendto(tr, data, sends=sends, answered=answered, ag=ag, loop=loop):
                    sends.append((CLOCK.mono, bytes(data)))
                    if answered is not None and len(sends) == answered:
                        reply = ag.handle(bytes(data))
                        loop.call_at(CLOCK.mono + timeout / 4, lambda: tr.inject_datagram(reply))

                loop.on_sendto = on_sendto
                t0 = CLOCK.mono
                result = exc = None
                with loop.running():
                    client = Client("2001:db8::1" if how == "default" and answered == 1 else "192.0.2.1", V2C("public"))
                    cm = None
                    if how == "configure":
                        client.configure(retries=retries, timeout=timeout)
                    elif how == "configure+credentials":
                        client.configure(credentials=V1("public"), retries=retries, timeout=timeout)
                    elif how == "configure-then-credentials":
                        client.configure(retries=retries, timeout=timeout)
                        client.configure(credentials=V1("public"))
                    elif how == "reconfigure":
                        cm = client.reconfigure(retries=retries, timeout=timeout)
                    elif how == "reconfigure+credentials":
                        cm = client.reconfigure(credentials=V1("public"), retries=retries, timeout=timeout)
                    if cm is not None:
                        cm.__enter__()
                    task = loop.create_task(client.get(world.OID(OID)))
                    done_at = [None]
                    task.add_done_callback(lambda _t, done_at=done_at: done_at.__setitem__(0, CLOCK.mono - t0))
                    try:
                        loop.run_until_idle(horizon=t0 + (retries + 2) * timeout + 10)
                    except Stalled:
                        pass
                    if task.done() and not task.cancelled():
                        exc = task.exception()
                        result = None if exc is not None else world.norm_value(task.result())
                    else:
                        task.cancel()
                        try:
                            loop.run_until_idle(horizon=CLOCK.mono + 1)
                        except Stalled:
                            pass
                    if cm is not None:
                        cm.__exit__(None, None, None)
                    unclosed = [i for i, tr in enumerate(loop.transports) if not tr.close_calls]
                del task
                gc.collect()
                loop.close()
                facts = {"family": "through the Client", "configured_by": how, "retries": retries, "timeout": timeout, "answered_attempt": answered,
                         "sends": len(sends), "done_at": done_at[0], "exception": type(exc).__name__ if exc else None}
                violations = []

                def bad(kind, **d):
                    violations.append({"kind": kind, "detail": {**facts, **d}, "facts": facts, "case": {"client_family": True}})

                if answered is None:
                    if len(sends) != retries:
                        bad("client-sender-ran-with-another-retry-budget")
                    elif type(exc).__name__ != "Timeout":
                        bad("timeout-not-raised")
                    elif done_at[0] != retries * timeout:
                        bad("timeout-at-wrong-instant", expected_at=retries * timeout)
                else:
                    want_at = (answered - 1) * timeout + timeout / 4
                    if exc is not None or result != ("str", b"host"):
                        bad("reply-in-time-not-returned-at-once")
                    elif len(sends) != answered or done_at[0] != want_at:
                        bad("retransmission-at-wrong-instant", expected_at=want_at)
                if len({d for _, d in sends}) > 1:
                    bad("retransmission-differs-from-request")
                if unclosed:
                    bad("transport-left-open", unclosed_transports=unclosed)
                acc.count(evaluations=1, nontrivial=1, states=1, transitions=len(sends), traces=1)
                acc.outcome("client/%s" % ("ok" if not violations else violations[0]["kind"]))
                for v in violations[:1]:
                    acc.violation(v)
    acc.sample({"family": "send_udp as the Client's default sender", "configured_by": list(CLIENT_HOWS)})


def shards(tier):
    out = [{"tier": tier, "client_family": True}]
    if tier == "thorough":
        out.append({"tier": tier, "loopback": True})
    for r, t in configs(tier):
        for first in range(len(OUTCOMES)):
            out.append({"retries": r, "timeout": t, "first": first, "tier": tier})
    # once more with the application's logging at DEBUG (the sender hex-dumps
    # what it sends and receives then): the smallest and the largest budget
    for r, t in (configs(tier)[0], configs(tier)[-1]):
        for first in range(len(OUTCOMES)):
            out.append({"retries": r, "timeout": t, "first": first, "tier": tier, "lib_log": "DEBUG"})
    out.append({"tier": tier, "client_family": True, "lib_log": "DEBUG"})
    # time passes outside the per-attempt wait: every socket set-up takes a
    # while (each attempt still gets its full `timeout` seconds)
    for r, t, su in ((2, 0.5, 0.25), (3, 2, 3)) if tier == "quick" else ((2, 0.5, 0.25), (3, 2, 3), (4, 0.5, 1), (5, 2, 0.5)):
        for first in range(len(OUTCOMES)):
            out.append({"retries": r, "timeout": t, "first": first, "tier": tier, "setup": su})
    # an IPv6 agent (the OS reports its address as a 4-tuple)
    for first in range(len(OUTCOMES)):
        out.append({"retries": 2, "timeout": 0.5, "first": first, "tier": tier, "ipv6": True})
    return out


def closed_form_leaves(retries, timeout, first, setup=0):
    """Independent count of the executions below the first choice: classify
    every outcome as terminal / non-terminal for this implementation by a
    two-attempt probe, then leaves(r) = term + nt * leaves(r-1)."""
    probe = make_run(2, timeout, setup)
    nonterminal = []
    for k in range(len(OUTCOMES)):
        ctx, _, _ = explore.run_once(probe, (k,))
        nonterminal.append(len(ctx.choices) > 1)
    nt = sum(nonterminal)
    term = len(OUTCOMES) - nt

    def leaves(r):
        return len(OUTCOMES) if r == 1 else term + nt * leaves(r - 1)

    if retries == 1 or not nonterminal[first]:
        return 1
    return leaves(retries - 1)


def run_shard(params, acc):
    if params.get("loopback"):
        run_loopback(acc)
        return
    if params.get("client_family"):
        run_client_family(acc)
        return
    run = make_run(params["retries"], params["timeout"], params.get("setup", 0), params.get("ipv6", False))

    def on_exec(ctx, obs, violations):
        acc.count(evaluations=1, nontrivial=1 if any(ctx.choices) else 0, traces=1)
        acc.outcome("%s/sends=%d" % (obs[0] or "result", obs[3]))
        acc.sample({"retries": params["retries"], "timeout": params["timeout"], "outcomes": [OUTCOMES[c] for c in ctx.choices], "ending": obs[0] or "result", "at": obs[2], "sends": obs[3]}, interesting=len(ctx.choices) >= 2)

    stats, found = explore.explore(run, bound=None, on_exec=on_exec, double_every=100, root=(params["first"],))
    acc.count(evaluations=0, states=stats.nodes + stats.executions, transitions=stats.transitions)
    acc.maxi("max_depth", stats.max_depth)
    acc.bump("double_runs", stats.double_runs)
    expected = closed_form_leaves(params["retries"], params["timeout"], params["first"], params.get("setup", 0)) if not found else stats.executions
    if expected != stats.executions:
        # the closed form assumes that whether an outcome ends the call does
        # not depend on the attempts before it (true for a sender with one
        # socket per attempt, not for one that keeps a socket across attempts):
        # count the leaves once more by plain recursion instead
        expected = explore.count_leaves(run, root=(params["first"],))
        if expected != stats.executions:
            raise world.HarnessError("explorer ran %d executions, independent recursion counts %d (%r)" % (stats.executions, expected, params))
        acc.bump("recursive_leaf_count_checks", 1)
    else:
        acc.bump("closed_form_leaf_count_checks", 1)
    seen = {}
    for choices, v in found:
        k = (v["kind"], tuple(v["facts"]["outcomes"][-1:]))
        seen[k] = seen.get(k, 0) + 1
        if seen[k] > 1:
            continue
        v = dict(v)
        v["case"] = {"retries": params["retries"], "timeout": params["timeout"], "choices": list(choices), "setup": params.get("setup", 0), "ipv6": params.get("ipv6", False)}
        acc.violation(v)


def replay(case):
    if case.get("client_family"):
        class A:
            def __init__(self):
                self.v = []
            def count(self, **k): pass
            def outcome(self, *a, **k): pass
            def sample(self, *a, **k): pass
            def violation(self, v): self.v.append(v)
        a = A()
        run_client_family(a)
        return a.v
    run = make_run(case["retries"], case["timeout"], case.get("setup", 0), case.get("ipv6", False))
    _, obs, violations = explore.run_once(run, case["choices"])
    return violations


def meta(tier):
    return {
        "level": "model_checking",
        "rule": "choice tree per (retries, timeout) in %r: at each sendto of the real send_udp on the virtual loop one of 11 outcomes %r; all sequences (unbounded deviations); every execution runs the real transport code to completion on a fresh loop; non-trivial = at least one non-default outcome; states = decision nodes + executions, transitions = decisions"
        % (configs(tier), list(OUTCOMES)),
        "exhaustive": True,
        "bounds": {"configs": [list(c) for c in configs(tier)], "outcomes_per_attempt": len(OUTCOMES)},
        "assumptions": [
            "the fake datagram transport models asyncio's selector transport contract: close()/abort() schedule connection_lost(None) once, no delivery after close, selector events of an iteration precede timers due in it and follow wake-ups queued before",
            "for ICMP / connection-lost outcomes the statement prescribes no result: propagating the OS error or counting the attempt as unanswered are both accepted; a reply landing exactly at the timeout instant may be returned or count as unanswered",
            "real loopback sockets are outside the scheduler and not part of the claim; the thorough tier replays 9 outcome sequences on real loopback sockets in a separate process and requires the fake transport to agree on result / exception, datagrams seen by the peer and leaked descriptors (skipped, not failed, when sockets are unavailable)",
        ],
    }
