"""
C10 - USM interop: requests verify under RFC 3414, authentic responses are
accepted.

Enumeration against the independent reference USM agent, whose verdict on
every request is the oracle: digest over the bytes as sent (HMAC with the key
the reference derived per RFC 3414 A.2), msgFlags = level of the credentials,
reportable set for get / get-next / get-bulk / set, engine id / boots / time =
the discovered values, user name; every authentic minimal-BER response at the
same level must be accepted and the value returned must be the value sent.

Families (each a full sweep of one dimension, or a small full product):
  pwlen   password lengths x user kinds
  size    response / request value length 0..300 x operation x user kinds
  engine  engine id lengths 5..32
  context context name lengths x sizes
  memo    two passwords x two engine ids in both orders in one process
"""

from .. import ops, world
from ..clock import CLOCK
from ..ref import agent as ragent
from ..ref import snmp, usm

PROPERTY = "C10"

OID = (1, 3, 6, 1, 2, 1, 1, 5, 0)
OID2 = (1, 3, 6, 1, 2, 1, 1, 6, 0)

KINDS = {
    "md5-auth": ("md5", None),
    "sha1-auth": ("sha1", None),
    "md5-priv": ("md5", "vstream"),
    "sha1-priv": ("sha1", "vstream"),
    "sha1-block": ("sha1", "vblock"),
    "noauth": (None, None),
}


def pattern(n, salt=0):
    return bytes((37 * i + 11 + salt) % 251 + 1 for i in range(n))


def make(kind, password, engine_id, db, context_name=b"", priv_password=None, context_engine=b""):
    from puresnmp.credentials import V3, Auth, Priv

    method, priv = KINDS[kind]
    name = b"user-" + kind.encode()
    priv_password = priv_password or (b"P" + password)
    if method is None:
        user, creds = usm.User(name), V3(name.decode())
    elif priv is None:
        user, creds = usm.User(name, (method, password)), V3(name.decode(), Auth(password, method))
    else:
        user = usm.User(name, (method, password), (priv, priv_password))
        creds = V3(name.decode(), Auth(password, method), Priv(priv_password, priv))
    ag = ragent.V3Agent(db, [user], engine_id=engine_id, clock=lambda: CLOCK.now)
    client, sender = world.make_client(creds, ag.handle, context_name=context_name, engine_id=context_engine)
    return client, sender, ag, user


def judge_requests(ag, user, case, bad, context_name=b"", context_engine=b""):
    level = user.level
    entries = ag.log
    if not entries:
        bad("nothing-sent")
        return
    d = entries[0]
    dm = d.get("msg")
    if dm is None or not d.get("discovery"):
        bad("first-datagram-is-not-a-discovery-probe", verdict=d.get("verdict"))
    else:
        if dm["flags"] != 4 or dm["usm"]["user"] != b"" or dm["usm"]["auth"] != b"" or dm["usm"]["priv"] != b"":
            bad("malformed-discovery-probe", flags=dm["flags"])
    disc_time = d.get("engine_time")
    for e in entries[1:]:
        m = e.get("msg")
        if m is None:
            bad("request-not-decodable-by-reference", verdict=e.get("verdict"))
            continue
        v = e.get("verdict")
        if v != "ok":
            bad("request-refused-by-reference-agent", verdict=v, flags=m["flags"])
            continue
        tag = e["pdu"]["tag"]
        if m["flags"] & 3 != level:
            bad("msgflags-do-not-state-the-credentials-level", flags=m["flags"], level=level)
        if tag in snmp.CONFIRMED and not m["flags"] & 4:
            bad("confirmed-class-request-not-reportable", pdu_tag=tag, flags=m["flags"])
        if m["flags"] & 0xF8:
            bad("reserved-flag-bits-set", flags=m["flags"])
        sp = m["usm"]
        if sp["engine_id"] != ag.engine_id or sp["boots"] != ag.boots or sp["time"] != disc_time:
            bad("security-parameters-differ-from-discovered-values", got=(sp["engine_id"], sp["boots"], sp["time"]), expected=(ag.engine_id, ag.boots, disc_time))
        if sp["user"] != user.name:
            bad("wrong-user-name", got=sp["user"])
        if m["max_size"] < 484:
            bad("msgMaxSize-below-484", got=m["max_size"])
        sc = m["scoped"]
        if sc["context_engine_id"] != (context_engine or ag.engine_id) or sc["context_name"] != context_name:
            bad("wrong-context", got=(sc["context_engine_id"], sc["context_name"]))
    others = {k: n for k, n in ag.stats.items() if n and k != "unknownEngineIDs"}
    if others:
        bad("usmStats-counters-incremented", stats=others)


def run_case(case):
    """case: dict(family, kind, pwlen, eidlen, op, size, ctxlen)"""
    CLOCK.reset()
    world.reset_plugins()
    kind = case["kind"]
    password = pattern(case.get("pwlen", 12), case.get("pwsalt", 0))
    engine_id = b"\x80\x00\x1f\x88" + pattern(case.get("eidlen", 12) - 4, 3)
    if "eidzeros" in case:
        # zero-padded engine id formats
        engine_id = b"\x80\x00\x1f\x88\x05" + bytes(case["eidzeros"]) + b"\x2a"
    ctx = bytes(b"c" * case.get("ctxlen", 0))
    size = case.get("size", 5)
    value = ("str", pattern(size, 5))
    op = case["op"]
    db = {OID: value, OID2: ("int", 1)}
    if op == "set":
        db[OID] = ("str", b"old")
    ctx_engine = b"\x80\x00\x1f\x88\x04another-engine" if case.get("ctxengine") else b""
    client, sender, ag, user = make(kind, password, engine_id, db, ctx, context_engine=ctx_engine)
    if "agent_max_size" in case:
        # what the *agent* can receive (announced in its discovery reply and
        # in every response) says nothing about what the client can receive
        ag.max_size = case["agent_max_size"]
    out = []
    facts = dict(case)

    def bad(k, **detail):
        out.append({"kind": k, "detail": {**facts, **detail}, "facts": facts})

    if op == "get":
        result, exc = ops.run_op(client, ("get", OID))
        want = value
    elif op == "getnext":
        result, exc = ops.run_op(client, ("getnext", OID[:-1]))
        want = (OID, value)
    elif op == "bulkget":
        result, exc = ops.run_op(client, ("bulkget", [], [OID[:-2]], 2))
        want = (("scalars", ()), ("listing", ((OID, value), (OID2, ("int", 1)))))
    elif op == "set":
        result, exc = ops.run_op(client, ("set", OID, value))
        want = value
    elif op == "walk":
        result, exc = ops.run_op(client, ("walk", OID[:-2]))
        want = ((OID, value), (OID2, ("int", 1)))
    else:
        raise world.HarnessError(op)
    facts["exception"] = ops.exc_sig(exc)
    world.v3_auth_facts(facts, exc, ag)
    judge_requests(ag, user, case, bad, ctx, ctx_engine)
    announced = sorted({e["msg"]["max_size"] for e in ag.log[1:] if e.get("msg")})
    if "agent_max_size" in case:
        ref_case = dict(case)
        del ref_case["agent_max_size"]
        ref_case["family"] = "agent-maxsize-reference"
        key = (case["kind"], case["op"])
        if key not in _ANNOUNCED:
            _ANNOUNCED[key] = run_case(ref_case)[3]
        if announced != _ANNOUNCED[key]:
            bad("announced-msgMaxSize-follows-the-agents", announced=announced, with_an_agent_announcing_65507=_ANNOUNCED[key], agent_announced=case["agent_max_size"])
    if exc is not None:
        bad("authentic-response-not-accepted", message=str(exc)[:200])
    elif result != want:
        bad("value-returned-differs-from-value-sent", got=result, expected=want)
    if op == "set" and ag.db.get(OID) != value and exc is None:
        bad("set-did-not-reach-the-agent")
    nreq = len(ag.log)
    sizes = None
    if ag.log and "sent" in ag.log[-1]:
        try:
            ws = snmp.v3_wrappers(ag.log[-1]["sent"])
            sizes = (ws[0].length, ws[-1].length if ws[-1].tag & 0x20 else None)
        except Exception:  # noqa
            pass
    return out, nreq, sizes, announced


_ANNOUNCED = {}


def plan(tier):
    cases = []
    deep = tier == "thorough"
    # pwlen: every length 1..300
    for kind in ("md5-auth", "sha1-auth", "md5-priv", "sha1-priv"):
        for L in range(1, 301):
            cases.append(dict(family="pwlen", kind=kind, pwlen=L, op="get"))
    # size: request (set) and response (get, ...) value lengths
    sizes = list(range(0, 301)) + ([] if not deep else list(range(301, 1201)) + [16383, 16384, 60000])
    for kind in KINDS:
        for op in ("get", "set", "getnext", "bulkget", "walk"):
            for sz in sizes:
                if sz > 300 and op not in ("get", "set"):
                    continue
                cases.append(dict(family="size", kind=kind, op=op, size=sz))
    # engine id lengths
    for kind in ("md5-auth", "sha1-priv", "noauth"):
        for L in range(5, 33):
            for op in ("get", "set"):
                cases.append(dict(family="engine", kind=kind, eidlen=L, op=op))
    for kind in KINDS:
        for z in (0, 1, 8, 11, 12, 13, 20, 26):
            for op in ("get", "set"):
                cases.append(dict(family="engine-zeros", kind=kind, eidzeros=z, op=op))
    # an explicit context engine id that differs from the agent's engine id
    for kind in KINDS:
        for op in ("get", "set", "getnext", "bulkget", "walk"):
            cases.append(dict(family="context-engine", kind=kind, op=op, ctxengine=1))
    # context names shift the boundaries
    for kind in ("sha1-auth", "md5-priv", "sha1-block"):
        for cl in range(0, 41):
            for sz in (range(40, 300, 3) if not deep else range(0, 300)):
                cases.append(dict(family="context", kind=kind, ctxlen=cl, size=sz, op="get"))
    # operations x kinds
    for kind in KINDS:
        for op in ("get", "getnext", "bulkget", "set", "walk"):
            cases.append(dict(family="ops", kind=kind, op=op))
    # agents that announce a small msgMaxSize of their own
    for kind in KINDS:
        for op in ("get", "bulkget", "walk"):
            for ms in (484, 1472, 65535, 2**31 - 1):
                cases.append(dict(family="agent-maxsize", kind=kind, op=op, agent_max_size=ms))
    if deep:
        # password length x engine id length
        for kind in ("md5-auth", "sha1-priv"):
            for L in range(1, 301):
                for el in range(5, 33):
                    cases.append(dict(family="pwlen-x-engine", kind=kind, pwlen=L, eidlen=el, op="get"))
    return cases


def shards(tier):
    n = 48
    return [{"tier": tier, "part": i, "of": n} for i in range(n)] + [{"tier": tier, "memo": True}]


def run_memo(acc):
    """the memoised key derivation: two passwords x two engine ids, all four
    combinations in both orders inside one process"""
    combos = [(0, 12), (1, 12), (0, 17), (1, 17)]
    for order in (combos, list(reversed(combos))):
        for kind in ("md5-priv", "sha1-auth"):
            for salt, el in order:
                case = dict(family="memo", kind=kind, pwlen=14, pwsalt=salt, eidlen=el, op="get")
                violations, nreq, _, _ = run_case(case)
                acc.count(evaluations=1, nontrivial=1, states=1, transitions=nreq, traces=1)
                acc.outcome("ok" if not violations else violations[0]["kind"])
                for v in violations:
                    v["case"] = case
                    acc.violation(v)


def run_shard(params, acc):
    if params.get("memo"):
        run_memo(acc)
        return
    cases = plan(params["tier"])[params["part"] :: params["of"]]
    boundary_hits = 0
    for case in cases:
        violations, nreq, sizes, _ = run_case(case)
        nb = 1 if sizes and any(s in (126, 127, 128, 129, 255, 256) for s in sizes if s is not None) else 0
        acc.count(evaluations=1, nontrivial=1, states=1, transitions=nreq, traces=1)
        acc.bump("responses_at_a_length_form_boundary", nb)
        acc.outcome("ok" if not violations else violations[0]["kind"])
        acc.sample({**case, "exchanges": nreq, "response_wrapper_lengths": sizes}, interesting=bool(nb))
        seen = set()
        for v in violations:
            if v["kind"] in seen:
                continue
            seen.add(v["kind"])
            v["case"] = case
            acc.violation(v)


def replay(case):
    return run_case(case)[0]


def meta(tier):
    return {
        "level": "model_checking",
        "rule": "full sweeps against the reference RFC 3414 agent (its verdict is the oracle): password lengths %s; value lengths 0..300 for get/set%s so that message, scoped-PDU and PDU lengths cross 127/128 and 255/256; engine id lengths 5..32 and zero-padded engine ids; context name lengths 0..40; every operation x user kind (MD5/SHA-1, with/without privacy, block-padding privacy, noAuthNoPriv); memoised key derivation with two passwords x two engine ids in both orders; a case = one operation on a fresh client incl. discovery; states = cases, transitions = exchanges"
        % ("1..300" if tier == "quick" else "1..300 (and x every engine id length 5..32)", "/getnext/bulkget/walk" if tier == "quick" else "/getnext/bulkget/walk, 301..1200, 16383, 16384, 60000 for get/set"),
        "exhaustive": True,
        "bounds": {"cases": len(plan(tier))},
        "assumptions": ["reference USM pinned by RFC 3414 A.3 and RFC 2202 vectors; hashlib is shared", "the reference agent requires exactly the user's configured security level"],
    }
