"""
C18 - temporary reconfiguration applies inside its block and is undone exactly.

Explicit-state BFS over histories of

    configure(k=v) | configure(credentials=c, unknown=1) | enter(k=v) | exit_ok | exit_exc | exit_cancel | request

on one real Client; in every state reached a request probe is issued (settings: timeout, retries, credentials of three protocol
families, context; plus an unknown setting).  Reference model: a stack of plain
dicts.  At every ``request`` the sender's keyword arguments and the datagram
(decoded by the reference side) must be those of the model's top of stack;
after every exit what is visible of ``client.config`` equals the configuration
before the matching enter and a request needs no second engine discovery; exit_exc lets the exception propagate; unknown settings raise and
change nothing.
"""

from .. import drive, statespace, world
from ..clock import CLOCK
from ..ref import agent as ragent
from ..ref import snmp, usm

PROPERTY = "C18"

OID = (1, 3, 1, 1, 0)
DB = {OID: ("int", 7)}

CREDS = ["v2c:a", "v2c:b", "v1:a", "v3:user1", "v3:user2"]
USERS = {
    "user1": usm.User(b"user1", ("md5", b"authpass-one")),
    "user2": usm.User(b"user2", ("sha1", b"authpass-two"), ("vstream", b"privpass-two")),
    # the same user after the device's administrator changed the privacy
    # password / the authentication password (the agent knows the variant the
    # model says is active)
    "user2b": usm.User(b"user2", ("sha1", b"authpass-two"), ("vstream", b"privpass-other")),
    "user2c": usm.User(b"user2", ("sha1", b"authpass-changed"), ("vstream", b"privpass-two")),
    # same pass-phrases, other authentication protocol (the privacy key is
    # localised with the authentication protocol's hash)
    "user2d": usm.User(b"user2", ("md5", b"authpass-two"), ("vstream", b"privpass-two")),
}
SETTINGS = {
    "timeout": [6, 1],
    "retries": [10, 2],
    "credentials": CREDS,
    "context": ["default", "ctx-c"],
}
INITIAL = {"timeout": 6, "retries": 10, "credentials": "v2c:a", "context": "default"}


def lib_creds(name):
    from puresnmp.credentials import V1, V2C, V3, Auth, Priv

    fam, arg = name.split(":")
    if fam == "v1":
        return V1(arg)
    if fam == "v2c":
        return V2C(arg)
    if arg == "user1":
        return V3("user1", Auth(b"authpass-one", "md5"))
    if arg == "user2b":
        return V3("user2", Auth(b"authpass-two", "sha1"), Priv(b"privpass-other", "vstream"))
    if arg == "user2c":
        return V3("user2", Auth(b"authpass-changed", "sha1"), Priv(b"privpass-two", "vstream"))
    if arg == "user2d":
        return V3("user2", Auth(b"authpass-two", "md5"), Priv(b"privpass-two", "vstream"))
    return V3("user2", Auth(b"authpass-two", "sha1"), Priv(b"privpass-two", "vstream"))


def lib_kwargs(key, val):
    """keyword arguments of one configure()/reconfigure() call"""
    if "+" in key:
        return {k: lib_value(k, v) for k, v in zip(key.split("+"), val)}
    return {key: lib_value(key, val)}


def model_update(frame, key, val):
    if "+" in key:
        for k, v in zip(key.split("+"), val):
            frame[k] = v
    else:
        frame[key] = val


def creds_of(key, val):
    """the credentials a call sets (None if it sets none)"""
    if "+" in key:
        d = dict(zip(key.split("+"), val))
        return d.get("credentials")
    return val if key == "credentials" else None


def lib_value(key, value):
    if key == "credentials":
        return lib_creds(value)
    if key == "context":
        from puresnmp.api.raw import Context

        return Context(b"", b"") if value == "default" else Context(b"", b"c")
    return value


class Boom(Exception):
    pass


class System:
    """real client + environment + reference model, driven by events"""

    def __init__(self):
        CLOCK.reset()
        world.reset_plugins()
        self.community_agent = ragent.Agent(DB)
        self.community_agent.check_community = False
        self.v3_agent = ragent.V3Agent(DB, list(USERS.values()), clock=lambda: CLOCK.now)
        self.client, self.sender = world.make_client(lib_creds(INITIAL["credentials"]), self.handle)
        self.stack = [dict(INITIAL)]
        # Each frame of the model stack lives through *incarnations*: a new one
        # starts with every configure() on that frame and with every enter (how
        # an implementation maps frames to message-processing instances - one
        # per credential family, a fresh one per call - is its own business).
        # What the property fixes is restoration: after leaving a block the
        # outer frame's incarnation continues, so a request there behaves as
        # the requests there did before.
        self.incs = [0]
        self.next_inc = 1
        self.served = {}  # incarnation -> credentials a request succeeded with there
        self.ever = ()  # every credentials a request was issued with, in order of first use
        self.blocks = []  # (context manager, client.config before enter)
        self.datagrams = []
        self.dead = False

    def handle(self, packet):
        self.datagrams.append(packet)
        ver = snmp.dec_message(packet)["version"]
        return self.v3_agent.handle(packet) if ver == 3 else self.community_agent.handle(packet)

    def close(self):
        """leave every open block (a discarded generator-based context
        manager would otherwise run its clean-up whenever the garbage
        collector gets to it - possibly inside the library)"""
        while self.blocks:
            cm, _ = self.blocks.pop()
            try:
                cm.__exit__(None, None, None)
            except Exception:  # noqa
                pass

    # ------------------------------------------------------------------
    def fingerprint(self):
        c = self.client

        # tokens renamed by first occurrence: only the pattern matters
        ren = {}
        incs = tuple(ren.setdefault(t, len(ren)) for t in self.incs)
        served = tuple(sorted((ren[t], u) for t, u in self.served.items() if t in ren))
        mpm = getattr(c, "mpm", None)
        return (
            incs,
            served,
            # state derived from credentials (localised keys ...) may be kept
            # anywhere: histories that served other credentials are other states
            self.ever,
            tuple(tuple(sorted(f.items())) for f in self.stack),
            cfg(getattr(c, "config", None)),
            type(mpm).__name__,
            bool(getattr(mpm, "disco", None)),
            tuple(cfg(old) for _, old in self.blocks),
            self.dead,
        )


def cfg(x):
    """what is visible of a client configuration object (the attribute names
    are the documented ones; an object laid out otherwise just contributes
    less to the canonical state)"""
    try:
        return (repr_creds(x.credentials), x.timeout, x.retries, x.context.engine_id, x.context.name)
    except AttributeError:
        return None


def same_config(a, b):
    pa, pb = cfg(a), cfg(b)
    if pa is None or pb is None:
        return True  # nothing to compare: the request probes decide
    return pa == pb


def repr_creds(c):
    from puresnmp.credentials import V2C, V3

    if isinstance(c, V3):
        return ("v3", c.username, c.auth and (c.auth.method, c.auth.key), c.priv and (c.priv.method, c.priv.key))
    return ("v2c" if isinstance(c, V2C) else "v1", c.community)


# Sub-alphabets: the BFS is run once per sub-alphabet (settings interact at
# most pairwise through configure/reconfigure; each family of interactions
# gets its own exhaustive search)
SUBALPHABETS = {
    "credentials": dict(settings={"credentials": CREDS}, request=False, bogus=False),
    "credentials+request": dict(settings={"credentials": ["v2c:a", "v3:user1", "v3:user2"]}, request=True, bogus=False),
    "transport+context": dict(settings={"timeout": [6, 1], "retries": [10, 2], "context": ["default", "ctx-c"]}, request=False, bogus=True),
    "mixed": dict(settings={"credentials": ["v2c:b", "v1:a", "v3:user2"], "timeout": [1], "context": ["ctx-c"]}, request=False, bogus=True),
    "several-settings-in-one-call": dict(settings={"credentials": ["v2c:a", "v1:a", "v3:user1"]}, request=False, bogus=False, multi=True, max_history={"quick": 4, "thorough": 6}),
    # one user name, changing passwords (keys derived from a password must
    # not outlive the credentials they were derived from)
    "same-user+request": dict(settings={"credentials": ["v3:user2", "v3:user2b", "v3:user2c", "v3:user2d"]}, request=True, bogus=False, max_history={"quick": 4, "thorough": 5}),
}
ACTIVE = [SUBALPHABETS["credentials"]]


def events(sysm):
    if sysm.dead:
        return []
    sub = ACTIVE[0]
    out = []
    for key, vals in sub["settings"].items():
        for v in vals:
            out.append(("configure", key, v))
            if len(sysm.blocks) < MAX_NEST[0]:
                out.append(("enter", key, v))
    if sub.get("multi"):
        # several settings in ONE call: credentials (possibly of another
        # family) together with transport settings
        for c in sub["settings"]["credentials"]:
            out.append(("configure", "credentials+timeout+retries", (c, 1, 2)))
            if len(sysm.blocks) < MAX_NEST[0]:
                out.append(("enter", "credentials+timeout+retries", (c, 1, 2)))
    if sub["bogus"]:
        out.append(("configure", "bogus", 1))
        if len(sysm.blocks) < MAX_NEST[0]:
            out.append(("enter", "bogus", 1))
    if sysm.blocks:
        out.append(("exit_ok",))
        out.append(("exit_exc",))
        out.append(("exit_cancel",))
    if sub["bogus"] and "credentials" in sub["settings"]:
        for v in sub["settings"]["credentials"]:
            out.append(("configure2", "credentials", v))
    if sub["request"]:
        out.append(("request",))
    return out


MAX_NEST = [4]


def step(sysm, ev):
    """apply one event to the real client and to the model; -> violations"""
    out = []
    c = sysm.client
    facts = {"event": list(ev), "stack_depth": len(sysm.stack)}

    def bad(kind, **detail):
        out.append({"kind": kind, "detail": {**facts, **detail}, "facts": facts})

    name = ev[0]
    if name == "configure":
        key, val = ev[1], ev[2]
        before = c.config
        if key == "bogus":
            try:
                c.configure(bogus=1)
                bad("unknown-setting-accepted")
            except Exception:  # noqa
                if not same_config(c.config, before):
                    bad("unknown-setting-changed-configuration")
            return out
        try:
            c.configure(**lib_kwargs(key, val))
        except Exception as exc:  # noqa
            bad("configure-raised", exception=repr(exc)[:200])
            return out
        sysm.incs[-1] = sysm.next_inc
        sysm.next_inc += 1
        model_update(sysm.stack[-1], key, val)
    elif name == "configure2":
        # credentials of (possibly) another family together with an unknown
        # setting: must be refused as a whole
        key, val = ev[1], ev[2]
        before = c.config
        try:
            c.configure(**{key: lib_value(key, val), "bogus": 1})
            bad("unknown-setting-accepted")
        except Exception:  # noqa
            if not same_config(c.config, before):
                bad("unknown-setting-changed-configuration")
        # the refused call must not have changed what is spoken
        out.extend(step(sysm, ("request",)))
    elif name == "enter":
        key, val = ev[1], ev[2]
        before = c.config
        kwargs = {"bogus": 1} if key == "bogus" else lib_kwargs(key, val)
        cm = c.reconfigure(**kwargs)
        try:
            cm.__enter__()
        except Exception as exc:  # noqa
            if key != "bogus":
                bad("enter-raised", exception=repr(exc)[:200])
            elif not same_config(c.config, before):
                bad("unknown-setting-changed-configuration")
            return out
        if key == "bogus":
            bad("unknown-setting-accepted")
            return out
        sysm.blocks.append((cm, before))
        frame = dict(sysm.stack[-1])
        sysm.incs.append(sysm.next_inc)
        sysm.next_inc += 1
        model_update(frame, key, val)
        sysm.stack.append(frame)
    elif name in ("exit_ok", "exit_exc", "exit_cancel"):
        cm, before = sysm.blocks.pop()
        sysm.stack.pop()
        gone = sysm.incs.pop()
        sysm.served.pop(gone, None)
        if name == "exit_cancel":
            import asyncio

            boom = asyncio.CancelledError()
            try:
                swallowed = cm.__exit__(asyncio.CancelledError, boom, None)
            except asyncio.CancelledError:
                swallowed = False
            except Exception as exc:  # noqa
                swallowed = False
                bad("exit-raised-other-exception", exception=repr(exc)[:200])
            if swallowed:
                bad("cancellation-of-the-block-swallowed")
        elif name == "exit_ok":
            try:
                cm.__exit__(None, None, None)
            except Exception as exc:  # noqa
                bad("exit-raised", exception=repr(exc)[:200])
        else:
            boom = Boom("from the block")
            try:
                swallowed = cm.__exit__(Boom, boom, None)
            except Boom:
                swallowed = False
            except Exception as exc:  # noqa
                swallowed = False
                bad("exit-raised-other-exception", exception=repr(exc)[:200])
            if swallowed:
                bad("exception-of-the-block-swallowed")
        if not same_config(c.config, before):
            bad("configuration-not-restored", now=repr(c.config)[:300], before=repr(before)[:300])
    elif name == "request":
        top = sysm.stack[-1]
        if family(top["credentials"]) == "v3":
            active = USERS[top["credentials"].split(":")[1]]
            sysm.v3_agent.users[active.name] = active
        sysm.sender.calls = []
        sysm.datagrams = []
        try:
            value = drive.run(c.get(world.OID(OID)))
            exc = None
        except drive.HarnessError:
            raise
        except Exception as e:  # noqa
            value, exc = None, e
        facts["model_top"] = dict(top)
        world.v3_auth_facts(facts, exc, sysm.v3_agent)
        facts["exception"] = type(exc).__name__ if exc else None
        if exc is not None:
            bad("request-failed", exception=repr(exc)[:200])
            return out
        if world.norm_value(value) != DB[OID]:
            bad("wrong-value-returned", got=repr(value))
        for _, _, kw in sysm.sender.calls:
            if kw.get("timeout") != top["timeout"] or kw.get("retries") != top["retries"]:
                bad("transport-arguments-not-from-active-configuration", got=kw)
                break
        judge_datagram(sysm.datagrams[-1], top, bad, sysm)
        # discovery: once a request has succeeded in an incarnation of a frame
        # the engine is known there, and leaving inner blocks gives exactly
        # that state back - every later request of the incarnation is a single
        # datagram.  The first request of an incarnation may or may not need
        # the discovery exchange (the instance may be fresh or shared).
        inc = sysm.incs[-1]
        if top["credentials"] not in sysm.ever:
            sysm.ever = sysm.ever + (top["credentials"],)
        if family(top["credentials"]) == "v3":
            known = top["credentials"] in sysm.served.get(inc, ())
            facts["datagrams"] = len(sysm.datagrams)
            if known and len(sysm.datagrams) != 1:
                bad("engine-discovery-repeated-or-skipped", datagrams=len(sysm.datagrams), expected=1)
            elif len(sysm.datagrams) not in (1, 2):
                bad("engine-discovery-repeated-or-skipped", datagrams=len(sysm.datagrams), expected="1 or 2")
        elif len(sysm.datagrams) != 1:
            bad("unexpected-number-of-datagrams", datagrams=len(sysm.datagrams))
        if top["credentials"] not in sysm.served.get(inc, ()):
            sysm.served[inc] = sysm.served.get(inc, ()) + (top["credentials"],)
    return out


def family(creds_name):
    return creds_name.split(":")[0]


def judge_datagram(packet, top, bad, sysm):
    msg = snmp.dec_message(packet)
    fam, arg = top["credentials"].split(":")
    want_version = {"v1": 0, "v2c": 1, "v3": 3}[fam]
    if msg["version"] != want_version:
        bad("wrong-protocol-version-spoken", got=msg["version"], expected=want_version)
        return
    if fam in ("v1", "v2c"):
        if msg["community"] != arg.encode():
            bad("wrong-community", got=msg["community"])
        return
    user = USERS[arg]
    if msg["usm"]["user"] != user.name:
        bad("wrong-user", got=msg["usm"]["user"])
    if msg["flags"] & 3 != user.level:
        bad("wrong-security-level", got=msg["flags"])
    entry = sysm.v3_agent.log[-1]
    if entry.get("verdict") != "ok":
        bad("agent-refused-request", verdict=entry.get("verdict"))
        return
    scoped = entry["msg"]["scoped"]
    want_ctx = b"" if top["context"] == "default" else b"c"
    if scoped["context_name"] != want_ctx:
        bad("wrong-context-name", got=scoped["context_name"])
    if scoped["context_engine_id"] != sysm.v3_agent.engine_id:
        bad("wrong-context-engine-id", got=scoped["context_engine_id"])


def build(hist):
    sysm = System()
    for ev in hist:
        step(sysm, ev)
    return sysm


def bounds(tier):
    return {"max_history": 5 if tier == "quick" else 7, "max_nesting": 4, "subalphabets": list(SUBALPHABETS),
            "max_history_of": {k: v["max_history"][tier] for k, v in SUBALPHABETS.items() if "max_history" in v}}


def shards(tier):
    out = []
    for name, sub in SUBALPHABETS.items():
        ACTIVE[0] = sub

        class Initial:  # shape of a fresh System as far as events() looks
            dead = False
            blocks = ()

        for ev in events(Initial):
            out.append({"tier": tier, "sub": name, "first": list(ev)})
    return out


def probe(sysm, hist):
    """the oracle of every state: a request issued now must reflect the
    model's top of stack"""
    return step(sysm, ("request",))


def run_shard(params, acc):
    b = bounds(params["tier"])
    MAX_NEST[0] = b["max_nesting"]
    ACTIVE[0] = SUBALPHABETS[params["sub"]]
    first = tuple(params["first"])

    def on_transition(hist, ev, sysm, violations):
        acc.count(evaluations=1, nontrivial=1 if len(sysm.stack) > 1 else 0, traces=1)
        acc.outcome(ev[0] + ("" if not violations else "/" + violations[0]["kind"]))
        if len(hist) >= 2:
            acc.sample({"subalphabet": params["sub"], "history": [list(e) for e in hist] + [list(ev)], "model_top": sysm.stack[-1]}, interesting=len(sysm.stack) > 2)

    # the first event of the shard is itself a transition from the initial state
    s0 = System()
    v0 = step(s0, first)
    on_transition((), first, s0, v0)
    s0.close()
    depth = ACTIVE[0].get("max_history", {}).get(params["tier"], b["max_history"])
    res = statespace.bfs(build, events, step, lambda s: s.fingerprint(), depth, on_transition=on_transition, roots=((first,),), probe=probe, dispose=lambda sm: sm.close())
    acc.count(evaluations=res.states, nontrivial=0, states=res.states, transitions=res.transitions + 1 + res.states)
    acc.maxi("max_depth", res.max_depth)
    acc.bump("request_probes", res.states)
    seen = set()
    for hist, ev, v in [((), first, v) for v in v0] + res.violations:
        k = (v["kind"], ev[0])
        if k in seen:
            continue
        seen.add(k)
        v = dict(v)
        v["case"] = {"history": [list(e) for e in hist] + ([list(ev)] if ev != ("probe",) else [["request"]])}
        acc.violation(v)


def replay(case):
    hist = [tuple(e) for e in case["history"]]
    sysm = System()
    out = []
    for ev in hist:
        out = step(sysm, ev)
    sysm.close()
    return out


def meta(tier):
    b = bounds(tier)
    return {
        "level": "model_checking",
        "rule": "explicit-state BFS over histories of configure / reconfigure-enter / exit (normal, exceptional) (/ request), one search per sub-alphabet of settings %r (plus an unknown setting), history length <= %d, nesting <= %d; in every new state a request probe is issued and judged; canonical state = (model stack, client.config, message-processing class, discovery done, saved configurations of the open blocks); each shard explores the histories starting with one first event (states are counted per shard); every transition is executed on the real Client, requests go to reference v1/v2c/v3 agents; non-trivial = request issued inside at least one override block"
        % ({k: v["settings"] for k, v in SUBALPHABETS.items()}, b["max_history"], b["max_nesting"]),
        "exhaustive": True,
        "bounds": b,
        "assumptions": ["equal canonical state implies equal futures: the canon contains the client's whole configuration state (config, mpm class, discovery flag, saved configurations)"],
    }
