"""
C14 - concurrent operations on a shared client do not disturb one another.

Stateless schedule exploration: several asyncio tasks run operations on one
shared Client (or on two clients with different SNMPv3 users on one loop); the
client's sender parks every request; the explorer decides which pending
request the agent answers next.  Choice 0 continues the task that was served
last (if it has a request pending); serving another task instead is a
preemption.  Exhaustive where the number of interleavings is small, otherwise
preemption-bounded.

Oracle: every task ends with exactly its solo result (same operation on a
fresh client against a fresh agent); for the get-races-set family the value is
the old or the new one according to the agent's delivery order; the agent saw
only well-formed requests it accepted (right user, digest, decryptable); the
loop logged no exception; where the interleaving count has a closed form
(multinomial) the number of executions equals it.
"""

import gc
from math import factorial

from .. import explore, ops, world
from ..clock import CLOCK
from ..drive import HarnessError
from ..ref import agent as ragent
from ..ref import usm
from ..vloop import ControlledSender, VLoop, owned

PROPERTY = "C14"

DB = {
    (1, 3, 1, 1, 0): ("int", 11),
    (1, 3, 1, 2, 0): ("str", b"two"),
    (1, 3, 2, 1, 1): ("int", 211),
    (1, 3, 2, 1, 2): ("int", 212),
    (1, 3, 2, 2, 1): ("str", b"r1"),
    (1, 3, 2, 2, 2): ("str", b"r2"),
    (1, 3, 4, 1, 0): ("c32", 41),
    (1, 3, 7, 1, 0): ("str", b"w1"),
    (1, 3, 7, 2, 0): ("str", b"w2"),
}

OPS = {
    "getA": ("get", (1, 3, 1, 1, 0)),
    "getB": ("get", (1, 3, 1, 2, 0)),
    "multiget": ("multiget", [(1, 3, 1, 1, 0), (1, 3, 4, 1, 0)]),
    "getnext": ("getnext", (1, 3, 1, 1, 0)),
    "walk": ("walk", (1, 3, 1)),  # 3 exchanges
    "walk2": ("walk", (1, 3, 2, 1)),  # 3 exchanges
    "bulkwalk": ("bulkwalk", [(1, 3, 2, 1), (1, 3, 2, 2)], 2),
    "table": ("table", (1, 3, 2)),
    "setW1": ("set", (1, 3, 7, 1, 0), ("str", b"new1")),
    "multisetW": ("multiset", [((1, 3, 7, 2, 0), ("str", b"new2")), ((1, 3, 7, 3, 0), ("int", 5))]),
    "missing": ("get", (1, 3, 9, 9, 0)),  # raises NoSuchOID
    # racing family
    "getW1": ("get", (1, 3, 7, 1, 0)),
    # through one shared PyWrapper: an operation issued by the consumer of a
    # walk that is still in progress, and plain wrapper calls next to it
    "pywalkget": ("pywalkget", (1, 3, 1)),
    "pybulkwalkget": ("pybulkwalkget", [(1, 3, 2, 1), (1, 3, 2, 2)], 2),
    "pyget": ("pyget", (1, 3, 4, 1, 0)),
    "pytable": ("pytable", (1, 3, 2)),
    # near-duplicates: concurrent requests that agree in their OIDs and differ
    # in something else (split into scalars / repeaters, repetition count,
    # value to set, order of the OIDs) - each must get its own answer
    "bulkgetS": ("bulkget", [(1, 3, 1, 1, 0)], [(1, 3, 2, 1)], 2),
    "bulkgetR": ("bulkget", [], [(1, 3, 1, 1, 0), (1, 3, 2, 1)], 2),
    "bulkgetS5": ("bulkget", [(1, 3, 1, 1, 0)], [(1, 3, 2, 1)], 5),
    "setW1b": ("set", (1, 3, 7, 1, 0), ("str", b"other1")),
    "bulkwalk5": ("bulkwalk", [(1, 3, 2, 1), (1, 3, 2, 2)], 5),
    "multigetR": ("multiget", [(1, 3, 4, 1, 0), (1, 3, 1, 1, 0)]),
    "pymultiget": ("pymultiget", [(1, 3, 1, 1, 0), (1, 3, 4, 1, 0)]),
    "pymultigetR": ("pymultiget", [(1, 3, 4, 1, 0), (1, 3, 1, 1, 0)]),
    "pygetA": ("pyget", (1, 3, 1, 1, 0)),
}
NEAR_DUPLICATES = [
    ("bulkgetS", "bulkgetR"), ("bulkgetR", "bulkgetS"), ("bulkgetS5", "bulkgetS"), ("bulkgetS", "bulkgetS5"), ("bulkgetS", "bulkgetS"),
    ("setW1", "setW1b"), ("bulkwalk5", "bulkwalk"), ("bulkwalk", "bulkwalk5"), ("multiget", "multigetR"),
    ("pymultiget", "pymultigetR"), ("pymultigetR", "pymultiget"), ("pymultiget", "pymultiget"), ("pyget", "pyget"), ("pyget", "pygetA"),
    ("getA", "getA"), ("getA", "getnext"),
]

ENVS = ("v2c", "v3", "v3x2")


def task_sets(tier):
    """(env, [op names], preemption bound or None)"""
    out = []
    singles = ["getA", "multiget", "getnext", "walk", "bulkwalk", "table", "setW1", "multisetW", "missing"]
    # all pairs (unordered, including twice the same operation)
    for i, a in enumerate(singles):
        for b in singles[i:]:
            out.append(("v2c", [a, b], None))
    out.append(("v2c", ["getW1", "setW1"], None))
    for a, b in NEAR_DUPLICATES:
        out.append(("v2c", [a, b], None))
    for a, b in NEAR_DUPLICATES[:3] + NEAR_DUPLICATES[5:7] + NEAR_DUPLICATES[9:10]:
        out.append(("v3", [a, b], None))
    out.append(("v2c", ["bulkgetS", "bulkgetR", "bulkgetS5"], 2))
    # the same with a clock that stands still (ids derived from it coincide)
    for a, b in NEAR_DUPLICATES:
        out.append(("v2c:tick0", [a, b], None))
    out.append(("v3:tick0", ["getA", "getnext"], None))
    # an operation whose caller gives up while the others go on
    out.append(("v2c", ["getA!", "getB"], None))
    out.append(("v2c", ["walk!", "getA"], None))
    out.append(("v2c", ["getA!", "getA"], None))
    out.append(("v3", ["getA!", "getB"], None))
    out.append(("v3", ["getB", "getA!"], None))
    out.append(("v3", ["getA!", "getA"], None))
    out.append(("v3", ["walk!", "getA"], None))
    out.append(("v3+reboot", ["getA!", "getB"], None))
    out.append(("v3", ["getA!", "getB", "setW1"], 2))
    out.append(("v3x2", ["getA!", "getB"], None))
    out.append(("v2c", ["pywalkget"], None))
    out.append(("v2c", ["pywalkget", "pyget"], None))
    out.append(("v2c", ["pybulkwalkget", "pytable"], None))
    out.append(("v3", ["pywalkget", "pyget"], None))
    v3pairs = [("getA", "getB"), ("getA", "walk"), ("walk", "setW1"), ("bulkwalk", "multiget"), ("getA", "missing"), ("walk", "walk2"), ("getW1", "setW1")]
    for a, b in v3pairs:
        out.append(("v3", [a, b], None))
        out.append(("v3x2", [a, b], None))
    for a, b in v3pairs[:4]:
        out.append(("v3x2e", [a, b], None))
    out.append(("v3x2e", ["getA", "getB", "walk"], 2))
    triples = [("getA", "getB", "getnext"), ("getA", "walk", "setW1"), ("walk", "walk2", "multiget"), ("getA", "bulkwalk", "multisetW")]
    for t in triples:
        out.append(("v2c", list(t), None if tier == "thorough" else 2))
    out.append(("v3", ["getA", "getB", "setW1"], 2 if tier == "quick" else None))
    out.append(("v3x2", ["getA", "walk", "getB"], 2))
    # answers built on arrival (their engine time is the arrival time) and
    # delivered in any order; clocks that tick only at every other read
    out.append(("v3@arrival", ["getA", "getB"], None))
    out.append(("v3@arrival", ["getA", "walk"], None))
    out.append(("v3@arrival", ["getA", "getB", "setW1"], 2))
    out.append(("v3:alt", ["getA", "getB", "multiget"], 2 if tier == "quick" else None))
    out.append(("v3:alt", ["getA", "getB", "getnext", "setW1"], 2))
    out.append(("v3:alt3", ["getA", "getB", "multiget"], 2 if tier == "quick" else None))
    out.append(("v3:alt4", ["getA", "getB", "multiget"], 2))
    out.append(("v3:tick0", ["getA", "getB", "multiget"], 2))
    out.append(("v3+reboot", ["getA", "getB"], None))
    out.append(("v3+reboot", ["getA", "walk"], None))
    out.append(("v3+reboot", ["getA", "getB", "setW1"], 2))
    out.append(("v2c:alt", ["getA", "getB", "multiget"], None))
    out.append(("v2c", ["setW1", "getA", "getB"], None))
    if tier == "thorough":
        out.append(("v2c", ["getA", "getB", "getnext", "multiget"], None))
        out.append(("v2c", ["getA", "walk", "setW1", "walk2"], 3))
        out.append(("v3", ["getA", "walk", "setW1", "getB"], 3))
        out.append(("v3x2", ["getA", "getB", "walk", "setW1"], 3))
        out.append(("v2c", ["getA", "getB", "getnext", "multiget", "missing"], 3))
        out.append(("v2c", ["getA", "getB", "getnext", "multiget", "missing", "setW1"], 2))
    return out


USERS = {
    "alice": (usm.User(b"alice", ("md5", b"authpass-alice"), ("vstream", b"privpass-alice")), None),
    "bob": (usm.User(b"bob", ("sha1", b"authpass-bob")), None),
}


def lib_creds(name):
    from puresnmp.credentials import V3, Auth, Priv

    if name == "alice":
        return V3("alice", Auth(b"authpass-alice", "md5"), Priv(b"privpass-alice", "vstream"))
    return V3("bob", Auth(b"authpass-bob", "sha1"))


async def run_op_async(client, op):
    """the operations of ops.run_op as real coroutines; -> normalised result"""
    from ..ops import _row, _vb
    from ..world import OID, norm_oid, norm_value, to_lib_value

    name, a = op[0], op[1:]
    if name.startswith("py"):
        from puresnmp import PyWrapper

        w = client.__dict__.get("_shared_wrapper")
        if w is None:
            w = client.__dict__["_shared_wrapper"] = PyWrapper(client)
        dotted = lambda o: ".".join(map(str, o))  # noqa
        if name == "pyget":
            return ("py", repr(await w.get(dotted(a[0]))))
        if name == "pymultiget":
            return ("py", repr(await w.multiget([dotted(o) for o in a[0]])))
        if name == "pytable":
            return ("py", repr(sorted(sorted(r.items()) for r in await w.table(dotted(a[0])))))
        out = []
        gen = w.walk(dotted(a[0])) if name == "pywalkget" else w.bulkwalk([dotted(o) for o in a[0]], bulk_size=a[1])
        async for vb in gen:
            out.append((vb[0], repr(vb[1]), repr(await w.get(vb[0]))))
        return ("py", tuple(out))
    if name == "get":
        return norm_value(await client.get(OID(a[0])))
    if name == "multiget":
        return tuple(norm_value(v) for v in await client.multiget([OID(o) for o in a[0]]))
    if name == "getnext":
        return _vb(await client.getnext(OID(a[0])))
    if name == "bulkget":
        res = await client.bulkget([OID(o) for o in a[0]], [OID(o) for o in a[1]], a[2])
        return (
            ("scalars", tuple((norm_oid(k), norm_value(v)) for k, v in res.scalars.items())),
            ("listing", tuple((norm_oid(k), norm_value(v)) for k, v in res.listing.items())),
        )
    if name == "set":
        return norm_value(await client.set(OID(a[0]), to_lib_value(*a[1])))
    if name == "multiset":
        res = await client.multiset({OID(o): to_lib_value(*v) for o, v in a[0]})
        return tuple((norm_oid(k), norm_value(v)) for k, v in res.items())
    if name == "walk":
        return tuple([_vb(v) async for v in client.walk(OID(a[0]))])
    if name == "bulkwalk":
        return tuple([_vb(v) async for v in client.bulkwalk([OID(o) for o in a[0]], bulk_size=a[1])])
    if name == "table":
        return tuple(sorted(_row(r) for r in await client.table(OID(a[0]))))
    raise HarnessError(name)


def make_run(env, names, tick=1.0, mode="tick1"):
    from puresnmp import Client
    from puresnmp.credentials import V2C

    arrival = env.endswith("@arrival")  # the agent builds its answer when the request arrives
    env = env.split("@")[0]
    # "+reboot": the engine is already known to the client and the agent has
    # restarted since - the first request of every task is answered by a
    # notInTimeWindow report (one per task at most)
    reboot = env.endswith("+reboot")
    env = env.replace("+reboot", "")

    def run(ctx):
        CLOCK.reset()
        if mode == "tick1":
            CLOCK.tick_per_read = tick
        elif mode.startswith("alt"):
            # the wall clock moves on by one second after every n-th read:
            # some concurrent requests share a request id, others do not
            every = int(mode[3:] or 2)

            def alt(clk):
                if clk.reads % every == 0:
                    clk.advance(1.0)

            CLOCK.on_read = alt
        world.reset_plugins()
        loop = VLoop()
        sender = ControlledSender(loop)
        if env == "v2c":
            agent = ragent.Agent(DB)
            clients = [Client("192.0.2.1", V2C("public"), sender=sender)]
        else:
            agent = ragent.V3Agent(DB, [USERS["alice"][0], USERS["bob"][0]], clock=lambda: CLOCK.now)
            clients = [Client("192.0.2.1", lib_creds("alice"), sender=sender)]
            if env in ("v3x2", "v3x2e"):
                clients.append(Client("192.0.2.1", lib_creds("bob"), sender=sender))
        agents = [agent]
        if env == "v3x2e":
            # the second client talks to another device (another engine id)
            agents.append(ragent.V3Agent(DB, [USERS["alice"][0], USERS["bob"][0]], engine_id=b"\x80\x00\x1f\x88\x04agent2", clock=lambda: CLOCK.now))

        def handle(e):
            a = agents[int(e["task"][1:]) % len(agents)] if len(agents) > 1 and e["task"][1:].isdigit() else agents[0]
            return a.handle(e["packet"])

        order = []  # task index per answered request
        bad_kwargs = []
        stuck = False
        max_pending = 0
        results = {}
        with loop.running():
            if reboot:
                warm = loop.create_task(owned("warm", run_op_async(clients[0], OPS["getA"])), name="warm")
                loop.run_ready()
                while sender.pending:
                    sender.answer(0, agent.handle(sender.pending[0]["packet"]))
                    loop.run_ready()
                if not warm.done() or warm.exception() is not None:
                    raise world.ScenarioUnavailable("warm-up exchange failed")
                agent.reboot()
                del agent.log[:]
            tasks = []
            for i, n in enumerate(names):
                c = clients[i % len(clients)]
                tasks.append(loop.create_task(owned("t%d" % i, run_op_async(c, OPS[n.rstrip("!")])), name="t%d" % i))
            loop.run_ready()
            last = None
            steps = 0
            cancelled = []
            while sender.pending:
                steps += 1
                if steps > 200:
                    stuck = True
                    break
                max_pending = max(max_pending, len(sender.pending))
                pend = sorted(range(len(sender.pending)), key=lambda j: (sender.pending[j]["task"] != last, sender.pending[j]["task"], sender.pending[j]["seq"]))
                has_last = last is not None and sender.pending[pend[0]]["task"] == last
                # the caller of an operation marked "!" may give up on it (a
                # deadline of its own) while one of its requests is unanswered
                # - at most one cancellation per execution
                owners = {sender.pending[j]["task"] for j in pend}
                may_cancel = [] if cancelled else [i for i, n in enumerate(names) if n.endswith("!") and "t%d" % i in owners and not tasks[i].done()]
                nopt = len(pend) + len(may_cancel)
                k = ctx.choose(nopt, "serve", free=not has_last) if nopt > 1 else 0
                if k >= len(pend):
                    i = may_cancel[k - len(pend)]
                    cancelled.append(i)
                    tasks[i].cancel()
                    loop.run_ready()
                    # requests nobody waits for any more are never answered
                    sender.pending = [e for e in sender.pending if not e["future"].done()]
                    order.append(-1 - i)
                    continue
                j = pend[k]
                entry = sender.pending[j]
                if entry["kwargs"] != {"timeout": 6, "retries": 10}:
                    bad_kwargs.append(dict(entry["kwargs"]))
                if arrival:
                    # answers were built when the requests arrived (engine
                    # time of that moment); only their delivery order is chosen
                    for e in sender.pending:
                        if "answer" not in e:
                            try:
                                e["answer"] = handle(e)
                            except ragent.Drop as d:
                                e["answer"] = d
                try:
                    data = entry["answer"] if arrival else handle(entry)
                    if isinstance(data, ragent.Drop):
                        raise data
                    sender.answer(j, data)
                except ragent.Drop as d:
                    from puresnmp.exc import Timeout

                    sender.answer(j, exc=Timeout("dropped by agent: %s" % d))
                last = entry["task"]
                order.append(int(last[1:]))
                loop.run_ready()
            for i, t in enumerate(tasks):
                if not t.done():
                    stuck = True
                    t.cancel()
                elif t.cancelled():
                    results[i] = ("!cancelled", None)
                elif t.exception() is not None:
                    results[i] = ("!exc", type(t.exception()).__name__)
                else:
                    results[i] = ("ok", t.result())
            loop.run_ready()
        tasks = None
        gc.collect()
        logged = [str(c.get("message")) + ": " + repr(c.get("exception"))[:120] for c in loop.logged]
        loop.close()
        CLOCK.tick_per_read = 0.0
        CLOCK.on_read = None
        full_log = [e for a in agents for e in a.log]
        verdicts = [e.get("verdict") for e in full_log]
        refused = [v for v in verdicts if v not in ("ok", "unknown-engine-id")]
        if reboot:
            # what a restart may cost: one refused request per task
            for _ in names:
                if "not-in-time-window" in refused:
                    refused.remove("not-in-time-window")
        obs = (tuple(sorted(results.items())), stuck, tuple(logged), tuple(refused))
        info = {"order": order, "max_pending": max_pending, "agent_log": full_log, "bad_kwargs": bad_kwargs, "cancelled": cancelled}
        run.last_info = info
        return obs, []

    run.last_info = None
    return run


def solo_results(env, names):
    """each operation alone on a fresh client / agent"""
    out = []
    for i, n in enumerate(names):
        # same client slot (user) as in the concurrent run
        run = make_run(env, [None] * i + [n]) if False else None
        n = n.rstrip("!")
        r = make_run(env, [n])
        if env in ("v3x2", "v3x2e") and i % 2 == 1:
            r = make_run_for_user(n, "bob")
        ctx, obs, _ = explore.run_once(r, ())
        out.append(dict(obs[0]).get(0, ("!stuck", None)))
    return out


def make_run_for_user(name, user):
    from puresnmp import Client

    def run(ctx):
        CLOCK.reset()
        CLOCK.tick_per_read = 1.0
        world.reset_plugins()
        loop = VLoop()
        sender = ControlledSender(loop)
        agent = ragent.V3Agent(DB, [USERS["alice"][0], USERS["bob"][0]], clock=lambda: CLOCK.now)
        client = Client("192.0.2.1", lib_creds(user), sender=sender)
        with loop.running():
            t = loop.create_task(owned("t0", run_op_async(client, OPS[name])), name="t0")
            loop.run_ready()
            while sender.pending:
                e = sender.pending[0]
                sender.answer(0, agent.handle(e["packet"]))
                loop.run_ready()
            res = ("!exc", type(t.exception()).__name__) if t.exception() is not None else ("ok", t.result())
        loop.close()
        CLOCK.tick_per_read = 0.0
        return (((0, res),), False, (), ()), []

    return run


def exchanges_of(env, name, user=None):
    name = name.rstrip("!")
    r = make_run(env if env not in ("v3x2", "v3x2e") else "v3", [name])
    explore.run_once(r, ())
    return len(r.last_info["order"])


def shards(tier):
    out = []
    for i, (e, n, b) in enumerate(task_sets(tier)):
        if len(n) >= 3:
            # cut the schedule tree at its first decision (which of the n
            # initially pending requests is served first)
            for k in range(len(n)):
                out.append({"tier": tier, "env": e, "names": n, "bound": b, "index": i, "first": k})
        else:
            out.append({"tier": tier, "env": e, "names": n, "bound": b, "index": i, "first": None})
    return out


def run_shard(params, acc):
    env, names, bound = params["env"], params["names"], params["bound"]
    mode = "tick1"
    if ":" in env:
        env, mode = env.split(":")
    solo = solo_results(env.split("@")[0], names)
    run = make_run(env, names, mode=mode)
    racing = "getW1" in names and "setW1" in names
    seen_kinds = set()
    info = {"n": 0}

    def on_exec(ctx, obs, violations):
        li = run.last_info
        results = dict(obs[0])
        info["n"] += 1
        facts = {"env": env, "clock": mode, "tasks": names, "served_order": li["order"], "max_pending": li["max_pending"]}

        def bad(kind, **detail):
            violations.append({"kind": kind, "detail": {**facts, **detail}, "facts": facts})

        if obs[1]:
            bad("tasks-stuck-without-pending-request")
        # (what the loop's exception handler was told - obs[2] - is part of
        # the observation, not of the verdict: the statement is about results)
        if obs[3]:
            bad("agent-refused-a-request", verdicts=list(obs[3])[:5])
        if li["bad_kwargs"]:
            bad("request-sent-with-foreign-transport-settings", kwargs=li["bad_kwargs"][:3])
        for i, n in enumerate(names):
            got = results.get(i)
            want = solo[i]
            if i in li["cancelled"]:
                want = ("!cancelled", None)
            if racing and n == "getW1":
                # old or new value according to the agent's delivery order
                set_idx = names.index("setW1")
                set_pos = [p for p, t in enumerate(li["order"]) if t == set_idx]
                get_posl = [p for p, t in enumerate(li["order"]) if t == i]
                # in v3 the first exchange of a task is discovery: the data
                # request is the task's last exchange
                if set_pos and get_posl:
                    want = ("ok", ("str", b"new1")) if max(set_pos) < max(get_posl) else ("ok", ("str", b"w1"))
            if got != want:
                if got and got[0] == "!exc" and got[1] == "AuthenticationError":
                    facts["exception"] = "AuthenticationError"
                    from ..ref import snmp

                    sent = [e for e in li["agent_log"] if e.get("verdict") == "ok" and "sent" in e]
                    facts["authentic_response_reserialisation_differs"] = any(snmp.reserialisation_differs(e["sent"]) for e in sent)
                bad("result-differs-from-solo-run", task=i, op=n, got=got, expected=want)
        nontrivial = 1 if li["max_pending"] >= 2 else 0
        acc.count(evaluations=1, nontrivial=nontrivial, traces=1)
        acc.outcome("ok" if not violations else violations[0]["kind"])
        acc.sample({"env": env, "tasks": names, "served_order": li["order"], "choices": list(ctx.choices)}, interesting=any(ctx.choices))

    root = () if params.get("first") is None else (params["first"],)
    stats, found = explore.explore(run, bound=bound, on_exec=on_exec, double_every=300, root=root)
    acc.count(evaluations=0, states=stats.nodes + stats.executions, transitions=stats.transitions)
    acc.maxi("max_depth", stats.max_depth)
    acc.bump("double_runs", stats.double_runs)
    if bound is None and env == "v2c" and "missing" not in names and not racing and not found and not any(n.endswith("!") for n in names):
        # (skipped when violations were found: a task that fails early
        # legitimately changes the shape of the schedule tree)
        ns = [exchanges_of(env, n) for n in names]
        if root:
            ns[root[0]] -= 1
        if min(ns) >= 0:
            multinomial = factorial(sum(ns))
            for n in ns:
                multinomial //= factorial(n)
        else:
            multinomial = None  # an operation that fails before it sends anything
        if multinomial != stats.executions:
            # the closed form assumes that every operation sends the requests
            # it sends when running alone (a client that lets identical
            # concurrent requests share one exchange sends fewer): count the
            # schedules once more by plain recursion instead
            recount = explore.count_leaves(run, root=root)
            if recount != stats.executions:
                raise HarnessError("explorer ran %d schedules of %r, multinomial says %r, independent recursion %d" % (stats.executions, names, multinomial, recount))
            acc.bump("recursive_count_cross_checks", 1)
        else:
            acc.bump("multinomial_cross_checks", 1)
    acc.extra.setdefault("schedules_per_set", {})["%s:%s:bound=%s:first=%s" % (env, "+".join(names), bound, params.get("first"))] = stats.executions
    for choices, v in found:
        k = v["kind"]
        if k in seen_kinds:
            continue
        seen_kinds.add(k)
        v = dict(v)
        v["case"] = {"env": env, "names": names, "choices": list(choices), "mode": mode}
        acc.violation(v)


def replay(case):
    env, names = case["env"], case["names"]
    mode = case.get("mode", "tick1")
    solo = solo_results(env.split("@")[0], names)
    run = make_run(env, names, mode=mode)
    ctx, obs, _ = explore.run_once(run, case["choices"])
    results = dict(obs[0])
    out = []
    if obs[1] or obs[3]:
        out.append({"kind": "stuck-or-refused", "detail": {"stuck": obs[1], "logged": obs[2], "verdicts": obs[3]}})
    racing = "getW1" in names and "setW1" in names
    for i, n in enumerate(names):
        if racing and n == "getW1":
            continue
        if i in run.last_info["cancelled"]:
            if results.get(i, ("",))[0] != "!cancelled":
                out.append({"kind": "result-differs-from-solo-run", "detail": {"task": i, "op": n, "got": results.get(i), "expected": "cancelled"}})
            continue
        if results.get(i) != solo[i]:
            out.append({"kind": "result-differs-from-solo-run", "detail": {"task": i, "op": n, "got": results.get(i), "expected": solo[i]}})
    return out


def meta(tier):
    sets = task_sets(tier)
    return {
        "level": "model_checking",
        "rule": "schedule exploration per task set: %d sets of 2..%d concurrent operations on a shared client (v2c, v3 authPriv) or on two clients with different users (v3x2); at each point the explorer picks which pending request the reference agent answers next (or, once per execution, that the caller of an operation marked '!' cancels it); preemption bound per set None (= all interleavings; for v2c sets cross-checked against the multinomial count) or as listed; the virtual clock advances 1 s per read so that request ids of concurrent requests differ; non-trivial = at least two requests pending at the same time"
        % (len(sets), max(len(s[1]) for s in sets)),
        "exhaustive": True,
        "bounds": {"sets": [[e, n, b] for e, n, b in sets]},
        "assumptions": ["the only suspension points of the library are the awaits on the sender", "operation sets are chosen so that agent-side effects commute, except the get-races-set family"],
    }
