"""
C17 - SNMP application types keep their numeric and conversion semantics.

Exhaustive range enumeration against independent integer arithmetic:
 * TimeTicks <-> timedelta in both directions for every n of a dense prefix
   and of bands around every power of two and every multiple of 10^7;
 * Counter / Counter64 constructors over integers far outside the range;
 * decoding of unsigned types from every boundary content-octet pattern;
 * IpAddress <-> IPv4Address over boundary addresses;
 * encode/decode round trips through x690 and through the reference codec.
"""

import os
from datetime import timedelta

from .. import world
from ..ref import ber

PROPERTY = "C17"

TICK = timedelta(milliseconds=10)


def plan(tier):
    dense = 2**25 if tier == "quick" else 2**29
    if os.environ.get("VERIF_FULL"):
        dense = 2**32
    band = 2**10 if tier == "quick" else 2**12
    return {"dense": dense, "band": band}


def band_points(band):
    centres = set(2**k for k in range(0, 33))
    centres.update(range(10**7, 2**32, 10**7))
    ranges = []
    for c in sorted(centres):
        lo, hi = max(0, c - band), min(2**32 - 1, c + band)
        ranges.append((lo, hi + 1))
    # merge overlaps
    merged = []
    for lo, hi in sorted(ranges):
        if merged and lo <= merged[-1][1]:
            merged[-1] = (merged[-1][0], max(hi, merged[-1][1]))
        else:
            merged.append((lo, hi))
    return merged


def shards(tier):
    p = plan(tier)
    out = []
    nchunk = 64 if tier == "quick" else 256
    step = p["dense"] // nchunk
    for i in range(nchunk):
        out.append({"kind": "tt", "lo": i * step, "hi": (i + 1) * step, "tier": tier})
    # bands are clipped to values above the dense prefix: every evaluation of
    # a run is a distinct (value, direction) pair
    bands = [(max(lo, p["dense"]), hi) for lo, hi in band_points(p["band"]) if hi > p["dense"]]
    for i in range(16):
        out.append({"kind": "ttbands", "ranges": bands[i::16], "tier": tier})
    out.append({"kind": "counters", "tier": tier})
    out.append({"kind": "unsigned-decode", "tier": tier})
    out.append({"kind": "ip", "tier": tier})
    out.append({"kind": "client", "tier": tier})
    out.append({"kind": "wire", "tier": tier})
    return out


def run_client(acc):
    """the same boundary values through the Client: fetched from the reference
    agent (get), and written to it and read back from its answer (set) - the
    value the caller holds, the value on the wire and the value in the agent's
    database must be one and the same"""
    from .. import ops
    from ..ref import agent as ragent

    OID = (1, 3, 6, 1, 4, 1, 99, 1, 0)
    vals = []
    for kind in ("c32", "g32", "tt"):
        vals += [(kind, v) for v in (0, 1, 127, 128, 2**31 - 1, 2**31, 2**31 + 1, 2**32 - 2, 2**32 - 1)]
    vals += [("c64", v) for v in (0, 1, 2**32, 2**63 - 1, 2**63, 2**63 + 1, 2**64 - 2, 2**64 - 1)]
    vals += [("ip", bytes(4)), ("ip", b"\xff\xff\xff\xff"), ("ip", bytes([127, 128, 255, 0])), ("int", -(2**31)), ("int", 2**31 - 1), ("int", -1)]
    from puresnmp.credentials import V2C

    for value in vals:
        for opname in ("get", "set"):
            ag = ragent.Agent({OID: value if opname == "get" else ("int", 0)})
            client, sender = world.make_client(V2C("public"), ag.handle)
            result, exc = ops.run_op(client, ("get", OID) if opname == "get" else ("set", OID, value))
            facts = {"family": "through the Client", "op": opname, "value": value, "exception": ops.exc_sig(exc)}
            bad = None
            if exc is not None:
                bad = "client-%s-of-an-in-range-value-raised" % opname
            elif result != value:
                bad = "client-%s-returned-another-value" % opname
            elif opname == "set" and ag.db.get(OID) != value:
                bad = "client-set-delivered-another-value"
            acc.count(evaluations=1, nontrivial=1)
            acc.outcome("client-ok" if bad is None else bad)
            if bad:
                acc.violation({"kind": bad, "detail": {**facts, "got": result, "agent_db": ag.db.get(OID)}, "facts": facts, "case": {"kind": "client"}})
    acc.sample({"family": "boundary values through Client.get / Client.set", "values": len(vals)})


WIRE_NUMBERS = [0, 1, 2, 29, 30, 99, 100, 101, 127, 128, 255, 256, 6000, 65535, 65536, 360000, 8640000, 2**24 - 1, 2**24, 2**31 - 1, 2**31, 2**32 - 2, 2**32 - 1]


def run_wire(acc):
    """values as a caller really meets them: many of them decoded from ONE
    datagram (multiget / walk / bulk walk), converted one after the other; and
    again after the process has built TimeTicks from timedeltas that are not a
    whole number of ticks (what a conversion did earlier must not colour a
    later one)"""
    import ipaddress

    from puresnmp import PyWrapper
    from puresnmp.credentials import V2C
    from puresnmp.types import Counter, Counter64, Gauge, IpAddress, TimeTicks
    from x690.types import ObjectIdentifier

    from .. import drive
    from ..ref import agent as ragent

    base = (1, 3, 6, 1, 4, 1, 99)
    db, want = {}, {}
    for i, n in enumerate(WIRE_NUMBERS):
        for col, (kind, cls) in enumerate((("tt", TimeTicks), ("c32", Counter), ("g32", Gauge), ("c64", Counter64)), start=1):
            oid = base + (col, i + 1)
            db[oid] = (kind, n)
            want[oid] = (cls, n, TICK * n if kind == "tt" else n)
        oid = base + (5, i + 1)
        packed = (n % 2**32).to_bytes(4, "big")
        db[oid] = ("ip", packed)
        want[oid] = (IpAddress, ipaddress.IPv4Address(packed), ipaddress.IPv4Address(packed))
    oids = sorted(db)

    def fetch(how):
        ag = ragent.Agent(db)
        client, _ = world.make_client(V2C("public"), ag.handle)
        if how == "multiget":
            vals = drive.run(client.multiget([ObjectIdentifier(".".join(map(str, o))) for o in oids]))
            return list(zip(oids, vals))
        if how == "walk":
            items, exc = drive.drain(client.walk(ObjectIdentifier(".".join(map(str, base)))), 10000)
        elif how == "bulkwalk":
            items, exc = drive.drain(client.bulkwalk([ObjectIdentifier(".".join(map(str, base)))], bulk_size=40), 10000)
        else:
            w = PyWrapper(client)
            items, exc = drive.drain(w.bulkwalk([".".join(map(str, base))], bulk_size=40), 10000)
            if exc:
                raise exc
            return [(tuple(int(a) for a in vb.oid.split(".")), vb.value) for vb in items]
        if exc:
            raise exc
        return [(world.norm_oid(vb.oid), vb.value) for vb in items]

    def judge(phase, how):
        try:
            got = fetch(how)
        except drive.HarnessError:
            raise
        except Exception as exc:  # noqa
            facts = {"family": "several values in one datagram", "phase": phase, "how": how, "exception": type(exc).__name__}
            acc.count(evaluations=1, nontrivial=1)
            acc.violation({"kind": "fetch-of-in-range-values-raised", "detail": {**facts, "message": str(exc)[:200]}, "facts": facts, "case": {"kind": "wire"}})
            return
        seen = dict(got)
        for oid in oids:
            cls, value, py = want[oid]
            v = seen.get(oid)
            if how == "pywrapper":
                ok = v == py and type(v) is type(py)
                shown = repr(v)
            else:
                ok = type(v) is cls and v.value == value and v.pythonize() == py and (cls is not TimeTicks or TimeTicks(v.pythonize()).value == value)
                shown = "%r -> %r" % (v, v.pythonize() if v is not None else None)
            acc.count(evaluations=1, nontrivial=1)
            acc.outcome("wire-ok" if ok else "wire-wrong")
            if not ok:
                facts = {"family": "several values in one datagram", "phase": phase, "how": how, "type": cls.__name__, "value": str(value)}
                acc.violation({"kind": "value-from-shared-datagram-converted-wrong", "detail": {**facts, "got": shown, "expected": str(py)}, "facts": facts, "case": {"kind": "wire"}})
                return

    for how in ("multiget", "walk", "bulkwalk", "pywrapper"):
        judge("fresh", how)
    # history: conversions of timedeltas between two ticks (whatever tick they
    # are given is not judged here - the statement is about whole ticks)
    for n in WIRE_NUMBERS:
        for extra in (1, 4999, 5000, 9999):
            try:
                TimeTicks(TICK * n + timedelta(microseconds=extra))
            except Exception:  # noqa
                pass
    for how in ("multiget", "walk", "bulkwalk", "pywrapper"):
        judge("after-sub-tick-conversions", how)
    acc.sample({"family": "several values in one datagram", "numbers": WIRE_NUMBERS, "ways": ["multiget", "walk", "bulkwalk", "PyWrapper.bulkwalk"], "phases": ["fresh", "after TimeTicks(timedelta between two ticks)"]})


def tt_range(lo, hi, acc, first_bad):
    from puresnmp.types import TimeTicks

    TT = TimeTicks
    tick = TICK
    bad_from = bad_to = 0
    for n in range(lo, hi):
        d = tick * n
        if TT(d).value != n:
            bad_from += 1
            if len(first_bad) < 3:
                first_bad.append(("timedelta->ticks", n, TT(d).value))
        back = TT(n).pythonize()
        if back != d:
            bad_to += 1
            if len(first_bad) < 3:
                first_bad.append(("ticks->timedelta", n, str(back)))
    return bad_from, bad_to


def run_shard(params, acc):
    kind = params["kind"]
    if kind in ("tt", "ttbands"):
        ranges = [(params["lo"], params["hi"])] if kind == "tt" else params["ranges"]
        first_bad = []
        total = bf = bt = 0
        for lo, hi in ranges:
            a, b = tt_range(lo, hi, acc, first_bad)
            bf += a
            bt += b
            total += hi - lo
        acc.count(evaluations=2 * total, nontrivial=2 * total)
        acc.bump("timeticks_values", total)
        acc.outcome("tt-ok", 2 * total - bf - bt)
        if bf:
            acc.outcome("tt-from-timedelta-wrong", bf)
        if bt:
            acc.outcome("tt-to-timedelta-wrong", bt)
        acc.sample({"kind": kind, "range": ranges[0], "checked": "TimeTicks(timedelta(milliseconds=10*n)).value == n and TimeTicks(n).pythonize() == timedelta(milliseconds=10*n)"})
        if first_bad:
            what, n, got = first_bad[0]
            facts = {"direction": what, "n": n}
            acc.violation({"kind": "timeticks-" + what, "detail": {**facts, "got": got, "mismatches_in_shard": bf + bt, "examples": first_bad}, "facts": facts,
                           "case": {"kind": "tt", "n": n}})
        return
    if kind == "counters":
        run_counters(acc)
    elif kind == "unsigned-decode":
        run_unsigned(acc)
    elif kind == "ip":
        run_ip(acc)
    elif kind == "client":
        run_client(acc)
    elif kind == "wire":
        run_wire(acc)


def counter_inputs():
    vals = set(range(-300, 300))
    for k in range(0, 67):
        for d in (-2, -1, 0, 1, 2):
            vals.add(2**k + d)
            vals.add(-(2**k) + d)
    for c in (2**32, 2**64, 2**33, 2**65):
        vals.update(range(c - 300, c + 300))
    vals.update([2**32 * 3 + 5, 2**64 * 7 + 11, -(2**70), 2**66 + 12345])
    return sorted(vals)


def lib_decode(data):
    from x690 import decode

    obj, _ = decode(data)
    return obj


def run_counters(acc):
    from puresnmp.types import Counter, Counter64, Gauge, TimeTicks

    for cls, bits, kind in ((Counter, 32, "c32"), (Counter64, 64, "c64")):
        for v in counter_inputs():
            want = max(0, v) % 2**bits
            obj = cls(v)
            got = obj.value
            ok = got == want
            if ok:
                enc = bytes(obj)
                rk, rv = ber.dec_value(ber.parse_all(enc))
                back = lib_decode(ber.enc_value(kind, want))
                ok = (rk, rv) == (kind, want) and type(back) is cls and back.value == want
            acc.count(evaluations=1, nontrivial=1)
            acc.outcome("counter-ok" if ok else "counter-wrong")
            if not ok:
                facts = {"type": cls.__name__, "input": v}
                acc.violation({"kind": "counter-semantics", "detail": {**facts, "got": got, "expected": want}, "facts": facts, "case": {"kind": "counter", "type": cls.__name__, "input": v}})
    acc.sample({"kind": "counters", "inputs": len(counter_inputs()), "checked": "Counter(v).value == max(0, v) mod 2^32 (2^64); encode by library -> reference decode; reference encode -> library decode"})
    # Gauge / TimeTicks encode/decode round trips over unsigned boundaries
    for cls, kind in ((Gauge, "g32"), (TimeTicks, "tt"), (Counter, "c32")):
        for k in range(0, 33):
            for d in (-1, 0, 1):
                v = 2**k + d
                if not 0 <= v < 2**32:
                    continue
                enc = bytes(cls(v))
                rk, rv = ber.dec_value(ber.parse_all(enc))
                back = lib_decode(ber.enc_value(kind, v))
                ok = (rk, rv) == (kind, v) and type(back) is cls and back.value == v
                acc.count(evaluations=1, nontrivial=1)
                if not ok:
                    facts = {"type": cls.__name__, "value": v}
                    acc.violation({"kind": "unsigned-roundtrip", "detail": {**facts, "encoded": enc, "ref_reads": (rk, rv)}, "facts": facts, "case": {"kind": "roundtrip", "type": cls.__name__, "value": v}})


def run_unsigned(acc):
    """every content-octet pattern at the sign/byte boundaries: with and
    without the leading zero octet"""
    from puresnmp.types import Counter, Counter64, Gauge, TimeTicks

    heads = [0x00, 0x01, 0x7F, 0x80, 0xFF]
    fills = [0x00, 0x7F, 0x80, 0xFF]
    for cls, tag, maxlen in ((Counter, 0x41, 4), (Gauge, 0x42, 4), (TimeTicks, 0x43, 4), (Counter64, 0x46, 8)):
        for n in range(1, maxlen + 2):
            for h in heads:
                for f in fills:
                    content = bytes([h]) + bytes([f]) * (n - 1)
                    value = int.from_bytes(content, "big")
                    if n == maxlen + 1 and h != 0:
                        continue  # would exceed the type's range
                    obj = lib_decode(ber.enc_tlv(tag, content))
                    ok = type(obj) is cls and obj.value == value and obj.value >= 0
                    acc.count(evaluations=1, nontrivial=1)
                    acc.outcome("unsigned-decode-ok" if ok else "unsigned-decode-wrong")
                    if not ok:
                        facts = {"type": cls.__name__, "content": content}
                        acc.violation({"kind": "unsigned-decoded-wrong", "detail": {**facts, "got": repr(obj), "expected": value}, "facts": facts, "case": {"kind": "unsigned", "type": cls.__name__, "content": content}})
    acc.sample({"kind": "unsigned-decode", "checked": "x690.decode(tag + len + content).value == int.from_bytes(content, 'big') for boundary patterns of 1..n+1 octets"})


def run_ip(acc):
    import ipaddress

    from puresnmp.types import IpAddress

    octs = (0, 1, 127, 128, 254, 255)
    addrs = [bytes([a, b, c, d]) for a in octs for b in octs for c in octs for d in octs]
    addrs += [(1 << k).to_bytes(4, "big") for k in range(32)]
    addrs += [((1 << 32) - 1 - (1 << k)).to_bytes(4, "big") for k in range(32)]
    for packed in addrs:
        ip = ipaddress.IPv4Address(packed)
        obj = IpAddress(ip)
        enc = bytes(obj)
        rk, rv = ber.dec_value(ber.parse_all(enc))
        back = lib_decode(ber.enc_value("ip", packed))
        ok = obj.pythonize() == ip and (rk, rv) == ("ip", packed) and type(back) is IpAddress and back.value == ip and back.pythonize() == ip
        acc.count(evaluations=1, nontrivial=1)
        acc.outcome("ip-ok" if ok else "ip-wrong")
        if not ok:
            facts = {"address": packed}
            acc.violation({"kind": "ipaddress-conversion", "detail": {**facts, "encoded": enc}, "facts": facts, "case": {"kind": "ip", "address": packed}})
    acc.sample({"kind": "ip", "addresses": len(addrs)})


def replay(case):
    class A:
        def __init__(self):
            self.v = []

        def count(self, **k):
            pass

        def outcome(self, *a, **k):
            pass

        def sample(self, *a, **k):
            pass

        def bump(self, *a, **k):
            pass

        def violation(self, v):
            self.v.append(v)

    acc = A()
    if case["kind"] == "tt":
        first_bad = []
        tt_range(case["n"], case["n"] + 1, acc, first_bad)
        return [{"kind": "timeticks-" + w, "detail": {"n": n, "got": g}} for w, n, g in first_bad]
    if case["kind"] == "client":
        run_client(acc)
    elif case["kind"] == "wire":
        run_wire(acc)
    elif case["kind"] in ("counter", "roundtrip"):
        run_counters(acc)
    elif case["kind"] == "unsigned":
        run_unsigned(acc)
    else:
        run_ip(acc)
    return acc.v


def meta(tier):
    p = plan(tier)
    return {
        "level": "exploration",
        "rule": "exhaustive ranges: every TimeTicks value 0..%d-1 and every value within +-%d of each 2^k (k<=32) and of each multiple of 10^7 below 2^32, in both conversion directions (an evaluation = one conversion compared with exact integer arithmetic: timedelta(milliseconds=10)*n); Counter/Counter64 constructors over %d integers from -2^70 to 2^66 (all 2^k+-2, dense bands at 0, 2^32, 2^64); unsigned decode over all boundary content patterns; 1360 IPv4 addresses; every value also through encode/decode against the reference codec; 23 boundary numbers of every application type fetched together in one datagram (multiget, walk, bulk walk, wrapper) and converted, before and after conversions of timedeltas that lie between two ticks; distinct_nontrivial counts distinct (value, direction) evaluations"
        % (p["dense"], p["band"], len(counter_inputs())),
        "exhaustive": True,
        "bounds": p,
        "assumptions": ["'sampled above' the dense prefix in the quantifier is replaced by exhaustive boundary bands; values outside prefix and bands are not covered (VERIF_FULL=1 sweeps all 2^32)"],
    }
