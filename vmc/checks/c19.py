"""
C19 - registered trap listeners receive every matching notification, with its
origin.

The real ``register_trap_callback`` sets up its listener on the virtual loop
(``create_datagram_endpoint`` returns the fake transport wired to the real
``SNMPTrapReceiverProtocol``); every sequence of datagrams up to the length
bound over the alphabet below is injected (each through a loop callback, as a
selector transport would), then the loop is run until idle.

Oracle: the callback fires exactly once per valid, community-matching SNMPv2c
Trap, with a Trap whose bindings are those sent (reference decode) and whose
source / TrapInfo.origin is the sender's address; never for foreign-community,
truncated, empty or garbage datagrams; whatever happens to one datagram, later
valid traps are still delivered.  InformRequests and datagrams with an SNMPv1
version field carry no verdict of their own.
"""

import gc
from itertools import product

from .. import world
from ..clock import CLOCK
from ..ref import ber, models, snmp
from ..vloop import VLoop

PROPERTY = "C19"

UPTIME = (1, 3, 6, 1, 2, 1, 1, 3, 0)
TRAPOID = (1, 3, 6, 1, 6, 3, 1, 1, 4, 1, 0)
ADDR1 = ("192.0.2.7", 40001)
ADDR2 = ("198.51.100.9", 162)
# asyncio reports IPv6 peers as 4-tuples (host, port, flowinfo, scope id)
ADDR6 = ("2001:db8::7", 40006, 0, 0)

PAYLOADS = {
    0: [],
    3: [((1, 3, 6, 1, 2, 1, 2, 2, 1, 1, 5), ("int", 5)), ((1, 3, 6, 1, 2, 1, 2, 2, 1, 2, 5), ("str", b"eth5")), ((1, 3, 6, 1, 2, 1, 2, 2, 1, 10, 5), ("c32", 4000000000))],
    "kinds": [
        ((1, 3, 9, 1), ("oid", (1, 3, 6, 1, 4, 1))),
        ((1, 3, 9, 2), ("ip", bytes([10, 1, 2, 3]))),
        ((1, 3, 9, 3), ("g32", 2**31)),
        ((1, 3, 9, 4), ("tt", 123)),
        ((1, 3, 9, 5), ("opaque", b"\x00\x01")),
        ((1, 3, 9, 6), ("c64", 2**63)),
        ((1, 3, 9, 7), ("null", None)),
    ],
}


def trap_bytes(community, payload, rid, tag=snmp.PDU_TRAP, version=1, uptime=4711):
    vbs = [(UPTIME, ("tt", uptime)), (TRAPOID, ("oid", (1, 3, 6, 1, 6, 3, 1, 1, 5, 3)))] + list(payload)
    node = snmp.community_msg_node(version, community, snmp.pdu_node(tag, rid, 0, 0, vbs))
    return node.encode(), vbs


def alphabet():
    """letter -> (datagram, source address, expected delivery or None, judged?)"""
    A = {}
    d, vbs = trap_bytes(b"public", PAYLOADS[0], 101)
    A["valid0"] = (d, ADDR1, vbs, True)
    # the very same datagram, byte for byte, from another sender
    A["valid0-from-elsewhere"] = (d, ADDR2, vbs, True)
    d3, vbs3 = trap_bytes(b"public", PAYLOADS[3], 102)
    A["valid3"] = (d3, ADDR2, vbs3, True)
    dk, vbsk = trap_bytes(b"public", PAYLOADS["kinds"], 103, uptime=2**32 - 1)
    A["validkinds"] = (dk, ADDR1, vbsk, True)
    d6, vbs6 = trap_bytes(b"public", PAYLOADS[3][:1], 107)
    A["valid-ipv6"] = (d6, ADDR6, vbs6, True)
    d0, vbs0 = trap_bytes(b"public", [((1, 3, 9, 4), ("tt", 0))], 108, uptime=0)
    A["valid-uptime0"] = (d0, ADDR2, vbs0, True)
    d, _ = trap_bytes(b"private", PAYLOADS[3], 104)
    A["foreign"] = (d, ADDR1, None, True)
    d, _ = trap_bytes(b"publi", PAYLOADS[0], 109)
    A["foreign-prefix"] = (d, ADDR1, None, True)
    d, _ = trap_bytes(b"public1", PAYLOADS[0], 110)
    A["foreign-longer"] = (d, ADDR2, None, True)
    # the listener's community with octets >= 0x80 inside / behind it (what a
    # lossy text decoding would drop)
    d, _ = trap_bytes(b"pub\xc3\xa9lic", PAYLOADS[0], 115)
    A["foreign-nonascii-inside"] = (d, ADDR1, None, True)
    d, _ = trap_bytes(b"public\xff", PAYLOADS[0], 116)
    A["foreign-nonascii-behind"] = (d, ADDR2, None, True)
    A["truncated"] = (d3[: len(d3) // 2], ADDR2, None, True)
    # valid envelope and lengths, but the PDU body is damaged (the request-id
    # field carries the OCTET STRING tag / the binding list is not a sequence)
    node = snmp.community_msg_node(1, b"public", snmp.pdu_node(snmp.PDU_TRAP, 111, 0, 0, vbs3))
    node.children[2].children[0].tag = 0x04
    A["damaged-pdu-field"] = (node.encode(), ADDR1, None, True)
    node = snmp.community_msg_node(1, b"public", snmp.pdu_node(snmp.PDU_TRAP, 112, 0, 0, vbs3))
    node.children[2].children[3].tag = 0x04
    node.children[2].children[3].content = node.children[2].children[3].encode()[2:]
    node.children[2].children[3].children = None
    A["damaged-binding-list"] = (node.encode(), ADDR2, None, True)
    # bindings with fewer than two members (the value is missing / the
    # binding is empty): consistent BER, not a notification
    node = snmp.community_msg_node(1, b"public", snmp.pdu_node(snmp.PDU_TRAP, 113, 0, 0, vbs3))
    vb = node.children[2].children[3].children[2]
    vb.children = vb.children[:1]
    A["binding-without-value"] = (node.encode(), ADDR1, None, True)
    node = snmp.community_msg_node(1, b"public", snmp.pdu_node(snmp.PDU_TRAP, 114, 0, 0, vbs3))
    node.children[2].children[3].children[4].children = []
    A["empty-binding"] = (node.encode(), ADDR2, None, True)
    A["garbage"] = (b"\x30\x82\xff\xffnot snmp at all", ADDR1, None, True)
    A["empty"] = (b"", ADDR2, None, True)
    d, _ = trap_bytes(b"public", PAYLOADS[0], 105, version=0)
    A["v1version"] = (d, ADDR1, None, False)
    d, _ = trap_bytes(b"public", PAYLOADS[0], 106, tag=snmp.PDU_INFORM)
    A["inform"] = (d, ADDR2, None, False)
    return A


def thorough_extra():
    """every truncation of a valid trap as additional one-letter prefixes"""
    d3, _ = trap_bytes(b"public", PAYLOADS[3], 102)
    return [d3[:k] for k in range(1, len(d3))]


def run_sequence(letters, datagrams):
    """letters: names (for reporting); datagrams: list of (bytes, addr)"""
    from puresnmp.api.pythonic import TrapInfo
    from puresnmp.api.raw import register_trap_callback
    from puresnmp.credentials import V2C
    from puresnmp.pdu import Trap

    CLOCK.reset()
    loop = VLoop()
    deliveries = []
    kept = []  # an application may keep what it was handed

    async def callback(pdu):
        if not isinstance(pdu, Trap):
            deliveries.append(("non-trap", type(pdu).__name__))
            return
        try:
            vbs = tuple((world.norm_oid(vb.oid), world.norm_value(vb.value)) for vb in pdu.value.varbinds)
        except Exception as exc:  # noqa
            vbs = ("!undecodable", repr(exc)[:80])
        src = pdu.source
        try:
            info = TrapInfo(pdu)
            origin = info.origin
            view = (info.uptime, info.oid, tuple(sorted(info.values.items(), key=repr)))
            want = (
                models.pythonise(vbs[0][1]) if len(vbs) > 1 and vbs[0] != "!undecodable" else None,
                models.pythonise(vbs[1][1]) if len(vbs) > 1 and vbs[0] != "!undecodable" else None,
                tuple(sorted(((".".join(map(str, o)), models.pythonise(v)) for o, v in vbs[2:]), key=repr)) if vbs and vbs[0] != "!undecodable" else (),
            )
            if view != want:
                origin = "!pythonic view differs: %r != %r" % (view, want)
        except Exception as exc:  # noqa
            origin = "!" + repr(exc)[:60]
        deliveries.append(("trap", vbs, (getattr(src, "address", None), getattr(src, "port", None)) if src is not None else None, origin))
        kept.append((len(deliveries) - 1, pdu))

    setup_exc = None
    try:
        register_trap_callback(callback, listen_address="0.0.0.0", port=16200, credentials=V2C("public"), loop=loop)
    except Exception as exc:  # noqa
        setup_exc = exc
    escaped = []
    if setup_exc is None and loop.transports:
        tr = loop.transports[0]
        with loop.running():
            for data, addr in datagrams:
                loop.call_soon(tr.inject_datagram, data, addr)
                try:
                    loop.run_until_idle(horizon=CLOCK.mono + 1)
                except Exception as exc:  # noqa - nothing may escape the loop
                    escaped.append(repr(exc)[:100])
    # what was handed over earlier must still say the same once later
    # datagrams have been processed
    for i, pdu in kept:
        try:
            src = pdu.source
            now = ((getattr(src, "address", None), getattr(src, "port", None)) if src is not None else None, TrapInfo(pdu).origin)
            vbs_now = tuple((world.norm_oid(vb.oid), world.norm_value(vb.value)) for vb in pdu.value.varbinds)
        except Exception as exc:  # noqa
            now, vbs_now = ("!" + repr(exc)[:60], None), None
        d = deliveries[i]
        if d[3] is not None and not str(d[3]).startswith("!") and (now != (d[2], d[3]) or vbs_now != d[1]):
            deliveries[i] = (d[0], d[1], d[2], "!changed after delivery: %r" % (now,))
    gc.collect()
    logged = len(loop.logged)
    closed = bool(loop.transports and loop.transports[0].closing)
    loop.close()
    return deliveries, setup_exc, escaped, logged, closed


def judge(letters, A, deliveries, setup_exc, escaped, logged, closed):
    out = []
    facts = {"sequence": list(letters), "deliveries": len(deliveries), "logged_exceptions": logged}

    def bad(kind, **detail):
        out.append({"kind": kind, "detail": {**facts, **detail}, "facts": facts})

    if setup_exc is not None:
        bad("listener-setup-failed", exception=repr(setup_exc)[:200])
        return out
    if escaped:
        bad("exception-escaped-the-loop", exceptions=escaped)
    if closed:
        bad("listener-transport-closed")
    expected = []
    for name in letters:
        data, addr, vbs, judged = A[name]
        if vbs is not None:
            expected.append(("trap", tuple(vbs), tuple(addr[:2]), addr[0]))
    got_traps = [d for d in deliveries if d[0] == "trap"]
    # deliveries of non-judged letters (inform, v1 version) are ignored
    unjudged = sum(1 for n in letters if not A[n][3])
    exp_sorted = sorted(map(repr, expected))
    got_sorted = sorted(map(repr, got_traps))
    if exp_sorted != got_sorted:
        # tolerate extra deliveries that stem from non-judged letters
        extra = list(got_sorted)
        missing = []
        for e in exp_sorted:
            if e in extra:
                extra.remove(e)
            else:
                missing.append(e)
        if missing:
            src_only = False
            if len(missing) == len(extra) or True:
                # diagnose: same bindings, wrong origin?
                got_vbs = sorted(repr(d[1]) for d in got_traps)
                exp_vbs = sorted(repr(d[1]) for d in expected)
                src_only = got_vbs[: len(exp_vbs)] == exp_vbs and len(got_traps) >= len(expected)
            bad("trap-delivered-with-wrong-origin-or-pythonic-view" if src_only else "valid-trap-not-delivered-exactly-once", missing=missing[:2], got=got_sorted[:3])
        elif len(extra) > unjudged:
            bad("non-matching-datagram-delivered", extra=extra[:2])
    return out


def sequences(tier):
    names = list(alphabet())
    maxlen = 3 if tier == "quick" else 4
    for n in range(1, maxlen + 1):
        for seq in product(names, repeat=n):
            yield seq


LOOPBACK_SEQUENCES = [
    ("valid0",),
    ("valid3", "validkinds"),
    ("foreign", "valid0"),
    ("truncated", "valid3"),
    ("garbage", "empty", "valid0"),
    ("damaged-pdu-field", "valid0"),
    ("binding-without-value", "valid-uptime0"),
    ("v1version", "valid0"),
    ("valid-ipv6",),
    ("valid0", "valid-ipv6", "valid3"),
    ("foreign-longer", "valid-ipv6", "foreign-prefix"),
]


def run_loopback(acc):
    """Conformance of the fake listener transport: the same letters over real
    loopback UDP sockets (IPv4 / IPv6) to the real register_trap_callback on
    the stock selector loop, in a separate process without virtual clock.
    What reaches the callback must be what the oracle expects (and what the
    fake-transport run delivered): the valid, matching notifications, once
    each, in order, with the sending socket as source."""
    import json
    import os
    import subprocess
    import sys

    A = alphabet()
    doc = {"sequences": [[{"hex": A[n][0].hex(), "family": 6 if len(A[n][1]) == 4 else 4} for n in seq] for seq in LOOPBACK_SEQUENCES]}
    verif = os.path.dirname(os.path.dirname(os.path.dirname(os.path.abspath(__file__))))
    try:
        proc = subprocess.run([sys.executable, "-m", "vmc.loopback_c19", world.REPO_SRC], cwd=verif, input=json.dumps(doc).encode(), stdout=subprocess.PIPE, stderr=subprocess.PIPE, timeout=180)
        res = json.loads(proc.stdout.decode() or "{}")
    except Exception as exc:  # noqa
        res = {"skipped": repr(exc)}
    if "results" not in res:
        acc.extra["loopback_pass"] = "skipped: %s" % (res.get("skipped") or "no output")
        acc.count(evaluations=1, nontrivial=0)
        return
    compared = skipped = 0
    for seq, r in zip(LOOPBACK_SEQUENCES, res["results"]):
        if "skipped" in r:
            skipped += 1
            continue
        compared += 1
        want = [snmp.dec_message(A[n][0])["pdu"]["request_id"] for n in seq if A[n][2] is not None]
        unjudged = [snmp.dec_message(A[n][0])["pdu"]["request_id"] for n in seq if not A[n][3]]
        got = [d["request_id"] for d in r["deliveries"] if d["request_id"] not in unjudged]
        # the fake-transport run of the same letters
        deliveries, setup_exc, escaped, logged, closed = run_sequence(seq, [(A[n][0], A[n][1]) for n in seq])
        fake_ok = not judge(seq, A, deliveries, setup_exc, escaped, logged, closed)
        facts = {"family": "real loopback sockets", "sequence": list(seq), "delivered_request_ids": got, "expected_request_ids": want, "fake_transport_run_conforms": fake_ok}
        bad = None
        if got != want:
            bad = "valid-trap-not-delivered-exactly-once"
        elif not all(d["source"] is not None and d["source_is_a_sender"] for d in r["deliveries"]):
            bad = "trap-delivered-with-wrong-origin-or-pythonic-view"
        acc.count(evaluations=1, nontrivial=1, states=1, transitions=len(seq), traces=1)
        acc.outcome("loopback-agrees" if bad is None else "loopback/" + bad)
        if bad:
            acc.violation({"kind": bad, "detail": {**facts, "deliveries": r["deliveries"]}, "facts": facts, "case": {"loopback": True}})
    acc.extra["loopback_pass"] = "%d sequences over real loopback sockets (%d skipped: no IPv6), IPv6 available: %s" % (compared, skipped, res.get("ipv6"))
    acc.sample({"family": "loopback conformance", "sequences": [list(s) for s in LOOPBACK_SEQUENCES]})


def shards(tier):
    n = 32
    out = [{"tier": tier, "part": i, "of": n} for i in range(n)] + [{"tier": tier, "truncations": True}]
    # with the application's logging at DEBUG (received datagrams are dumped)
    out += [{"tier": tier, "part": i, "of": n, "lib_log": "DEBUG"} for i in range(0, n, 4)] + [{"tier": tier, "truncations": True, "lib_log": "DEBUG"}]
    if tier == "thorough":
        out.append({"tier": tier, "loopback": True})
    return out


def run_shard(params, acc):
    A = alphabet()
    if params.get("loopback"):
        run_loopback(acc)
        return
    if params.get("truncations"):
        # every truncation of a valid trap, followed by a valid trap
        cuts = thorough_extra()
        for k, data in enumerate(cuts):
            letters = ("truncated", "valid0")
            datagrams = [(data, ADDR2), (A["valid0"][0], A["valid0"][1])]
            deliveries, setup_exc, escaped, logged, closed = run_sequence(letters, datagrams)
            violations = judge(letters, A, deliveries, setup_exc, escaped, logged, closed)
            acc.count(evaluations=1, nontrivial=1, states=2, transitions=2, traces=1)
            acc.outcome("ok" if not violations else violations[0]["kind"])
            for v in violations:
                v["case"] = {"truncate_at": k + 1}
                acc.violation(v)
        acc.sample({"family": "every truncation (1..%d octets) of a valid 3-binding trap, then a valid trap" % len(cuts)})
        return
    seqs = list(sequences(params["tier"]))[params["part"] :: params["of"]]
    for letters in seqs:
        datagrams = [(A[n][0], A[n][1]) for n in letters]
        deliveries, setup_exc, escaped, logged, closed = run_sequence(letters, datagrams)
        violations = judge(letters, A, deliveries, setup_exc, escaped, logged, closed)
        valid = sum(1 for n in letters if A[n][2] is not None)
        acc.count(evaluations=1, nontrivial=1 if (valid and valid < len(letters)) else 0, states=1, transitions=len(letters), traces=1)
        acc.outcome("ok" if not violations else violations[0]["kind"])
        acc.sample({"sequence": letters, "deliveries": len(deliveries), "logged_exceptions": logged}, interesting=valid >= 1 and valid < len(letters))
        for v in violations[:1]:
            v["case"] = {"sequence": list(letters)}
            acc.violation(v)


def replay(case):
    A = alphabet()
    if case.get("loopback"):
        class L:
            def __init__(self):
                self.v = []
                self.extra = {}
            def count(self, **k): pass
            def outcome(self, *a, **k): pass
            def sample(self, *a, **k): pass
            def violation(self, v): self.v.append(v)
        a = L()
        run_loopback(a)
        return a.v
    if "truncate_at" in case:
        data = A["valid3"][0][: case["truncate_at"]]
        letters = ("truncated", "valid0")
        datagrams = [(data, ADDR2), (A["valid0"][0], A["valid0"][1])]
    else:
        letters = tuple(case["sequence"])
        datagrams = [(A[n][0], A[n][1]) for n in letters]
    return judge(letters, A, *run_sequence(letters, datagrams))


def meta(tier):
    maxlen = 3 if tier == "quick" else 4
    return {
        "level": "model_checking",
        "rule": "every sequence of 1..%d datagrams over the alphabet %r injected into the real listener set up by register_trap_callback on a fresh virtual loop (states = nodes of the sequence tree = sequences, transitions = datagram deliveries), plus every truncation of a valid trap followed by a valid trap; non-trivial = sequence mixes valid and other datagrams"
        % (maxlen, list(alphabet())),
        "exhaustive": True,
        "bounds": {"max_sequence_length": maxlen, "alphabet": len(alphabet())},
        "assumptions": ["no order between deliveries is demanded", "InformRequests and SNMPv1-version datagrams carry no verdict of their own", "exceptions raised for one datagram may surface in the loop's exception handler"],
    }
