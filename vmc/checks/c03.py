"""
C03 - walks terminate and never re-request, whatever the agent answers.

The agent is an arbitrary function (requested OID, repetition index) ->
OID of a finite universe W or endOfMibView, built lazily: the first time the
client's request makes the agent evaluate the function at an argument the
explorer chooses the value (|W|+1 alternatives), later evaluations of the same
argument repeat it.  Alternative 0 is the true successor in a fixed database,
so that deviation bounding (where used) counts answers that differ from a
conformant agent.

Oracle on the agent's request log:
 (1) the number of requests is at most (#distinct OIDs revealed + #roots + 1
     + #answers that carried fewer bindings than columns asked for); hitting
     the request horizon (3|W|+6) is a violation;
 (2) no OID is requested twice at a position that was answered;
 (3) if a binding the client reads does not advance beyond the OID requested
     at its position (GETNEXT: any binding; GETBULK: first repetition of a
     column) the operation ends with FaultySNMPImplementation, or - lenient
     mode - ends normally; either way no request follows that answer;
 (4) nothing is yielded twice, nothing outside the roots, nothing the agent
     did not send.
"""

from .. import explore, ops, world
from ..ref import agent as ragent
from ..ref import models, snmp

PROPERTY = "C03"

A = (1, 3, 2)
B = (1, 3, 3)
W5 = [(1, 3, 1, 9), A, (1, 3, 2, 1), (1, 3, 2, 2), (1, 3, 3, 1)]
W7 = [(1, 3, 1, 9), A, (1, 3, 2, 1), (1, 3, 2, 2), (1, 3, 2, 3), (1, 3, 3, 1), (1, 7, 1)]
TRUE_DB = [(1, 3, 2, 1), (1, 3, 2, 2), (1, 3, 3, 1)]
# a sibling subtree whose number starts with the decimal digits of root A's
# last arc (1.3.2 / 1.3.20): textual and arc-wise containment differ
P = (1, 3, 20)
W7P = [(1, 3, 1, 9), A, (1, 3, 2, 1), (1, 3, 2, 2), (1, 3, 20, 1), (1, 3, 20, 2), (1, 7, 1)]
TRUE_DB_P = [(1, 3, 2, 1), (1, 3, 2, 2), (1, 3, 20, 1), (1, 3, 20, 2)]

OPS = {
    "walk": (("walk", A), [A], "getnext"),
    "walk-warn": (("walk", A, "warn"), [A], "getnext"),
    "multiwalk": (("multiwalk", [A, B]), [A, B], "getnext"),
    "multiwalk-warn": (("multiwalk", [A, B], "warn"), [A, B], "getnext"),
    "table": (("table", A), [A], "getnext"),
    "bulkwalk1": (("bulkwalk", [A], 1), [A], "bulk"),
    "bulkwalk2": (("bulkwalk", [A], 2), [A], "bulk"),
    "bulkwalk3": (("bulkwalk", [A], 3), [A], "bulk"),
    "bulkwalk2x2": (("bulkwalk", [A, B], 2), [A, B], "bulk"),
    "bulkwalk4": (("bulkwalk", [A], 4), [A], "bulk"),
    "bulkwalk1x2": (("bulkwalk", [A, B], 1), [A, B], "bulk"),
    "bulktable2": (("bulktable", (1, 3), 2), [(1, 3)], "bulk"),
    # the agent may also answer a GETBULK with fewer bindings than asked for,
    # down to none at all (choice per request: full / none / one binding)
    "bulkwalk1-cut": (("bulkwalk", [A], 1), [A], "bulk"),
    "bulkwalk2-cut": (("bulkwalk", [A], 2), [A], "bulk"),
    "bulkwalk2x2-cut": (("bulkwalk", [A, B], 2), [A, B], "bulk"),
    "walk-p": (("walk", A), [A], "getnext"),
    "multiwalk-p": (("multiwalk", [A, P]), [A, P], "getnext"),
    "bulkwalk1x2-p": (("bulkwalk", [A, P], 1), [A, P], "bulk"),
    "bulkwalk2x2-p": (("bulkwalk", [A, P], 2), [A, P], "bulk"),
    "bulktable2-p": (("bulktable", (1, 3, 2), 2), [(1, 3, 2)], "bulk"),
    # the agent may also answer any request with an error response (choice per
    # distinct request, memoised): "whatever the agent answers"
    "walk-err": (("walk", A), [A], "getnext"),
    "multiwalk-err": (("multiwalk", [A, B]), [A, B], "getnext"),
    "multiwalk-warn-err": (("multiwalk", [A, B], "warn"), [A, B], "getnext"),
    "table-err": (("table", A), [A], "getnext"),
    "bulkwalk2-err": (("bulkwalk", [A], 2), [A], "bulk"),
    "bulkwalk1x2-err": (("bulkwalk", [A, B], 1), [A, B], "bulk"),
}
# (error-status, error-index, bindings echoed?) - index "beyond" = one past the
# request's bindings
ERR_MENU = [None, (2, 0, True), (2, 1, True), (2, "beyond", True), (2, 0, False), (5, 0, True), (1, 0, False), (2, 2, True)]

# (operation, universe name, deviation bound or None)
ALL_OPS = ["walk", "walk-warn", "table", "multiwalk", "multiwalk-warn", "bulkwalk1", "bulkwalk2", "bulkwalk3", "bulkwalk1x2", "bulkwalk2x2", "bulktable2"]
CUT_OPS = ["bulkwalk1-cut", "bulkwalk2-cut", "bulkwalk2x2-cut"]
P_OPS = ["walk-p", "multiwalk-p", "bulkwalk1x2-p", "bulkwalk2x2-p", "bulktable2-p"]
ERR_OPS = ["walk-err", "multiwalk-err", "multiwalk-warn-err", "table-err", "bulkwalk2-err", "bulkwalk1x2-err"]
PLAN = {
    "quick": [(o, "W7", None) for o in ALL_OPS if o not in ("bulkwalk2x2",)] + [("bulkwalk2x2", "W5", None), ("bulkwalk2x2", "W7", 3)] + [(o, "W5", 3) for o in CUT_OPS]
    + [(o, "W7P", 2) for o in P_OPS] + [(o, "W5", 2) for o in ERR_OPS]
    + [(o, "W7M", 2) for o in ("walk", "walk-warn", "bulkwalk2", "table")] + [(o + "@v1", "W5", 2) for o in ERR_OPS[:4]] + [("multiwalk@v1", "W7", 2)],
    "thorough": [(o, "W7", None) for o in ALL_OPS]
    + [(o, "W9", None) for o in ("walk", "walk-warn", "multiwalk", "multiwalk-warn", "bulkwalk1", "bulkwalk2", "bulkwalk1x2", "table")]
    + [(o, "W9", 4) for o in ("bulkwalk3", "bulkwalk2x2", "bulktable2", "bulkwalk4")]
    + [("bulkwalk4", "W7", None)]
    + [(o, "W7", 4) for o in CUT_OPS] + [("bulkwalk1-cut", "W5", None), ("bulkwalk2-cut", "W5", None)]
    + [(o, "W7P", 4) for o in P_OPS] + [(o, "W7", 3) for o in ERR_OPS]
    + [(o, "W7M", None) for o in ("walk", "walk-warn", "table")] + [(o, "W7M", 4) for o in ("bulkwalk2", "multiwalk", "bulkwalk1")]
    + [(o + "@v1", "W7", 3) for o in ERR_OPS[:4]] + [("multiwalk@v1", "W7", None), ("walk@v1", "W7", None)],
}
W9 = sorted(W7 + [(1, 3, 2, 4), (1, 3, 3, 2)])
# sub-identifiers whose BER encodings have different lengths (300 = 82 2c,
# 16385 = 81 80 01: numeric and byte-wise order disagree)
W7M = [(1, 3, 1, 9), A, (1, 3, 2, 127), (1, 3, 2, 128), (1, 3, 2, 300), (1, 3, 2, 16385), (1, 7, 1)]
TRUE_DB_M = [(1, 3, 2, 127), (1, 3, 2, 128), (1, 3, 2, 300), (1, 3, 2, 16385)]
UNIVERSES = {"W5": W5, "W7": W7, "W9": W9, "W7P": W7P, "W7M": W7M}
MAX_EXEC = {"quick": 60_000, "thorough": 1_500_000}


def creds(v1=False):
    from puresnmp.credentials import V1, V2C

    return V1("public") if v1 else V2C("public")


def true_successor(oid, db=TRUE_DB):
    for o in db:
        if o > oid:
            return o
    return None


def make_run(opname, uname, client):
    v1 = opname.endswith("@v1")
    opname = opname.replace("@v1", "")
    op, roots, family = OPS[opname]
    W = UNIVERSES[uname]
    horizon = 3 * len(W) + 6
    lenient = "-warn" in opname

    shared = client

    def run(ctx):
        # a fresh client per execution: whatever an implementation keeps on
        # its client cannot make executions depend on one another
        client = shared if shared is not None else world.make_client(creds(v1), lambda p: b"")[0]
        memo = {}
        revealed = set()

        def fn(agent, oid, rep):
            key = (oid, rep)
            if key not in memo:
                default = true_successor(oid, TRUE_DB_P if uname == "W7P" else TRUE_DB_M if uname == "W7M" else TRUE_DB)
                menu = [default] + [w for w in W if w != default] + ([None] if default is not None else [])
                k = ctx.choose(len(menu), "f%r" % (key,))
                memo[key] = menu[k]
            val = memo[key]
            if val is not None:
                revealed.add(val)
            return val

        ag = ragent.Agent({})
        ag.successor_fn = fn
        if opname.endswith("-cut"):

            cut_memo = {}

            def cut(agent, head, rows, info):
                # like the successor function: decided lazily per distinct
                # request (requested OIDs, max-repetitions) and then repeated
                full = head + [vb for row in rows for vb in row]
                req = agent.log[-1]["msg"]["pdu"]
                key = (tuple(o for o, _ in req["varbinds"]), req["f2"])
                if key not in cut_memo:
                    cut_memo[key] = ctx.choose(3 if len(full) > 1 else 2, "cut%r" % (key,))
                k = cut_memo[key]
                return full if k == 0 else ([] if k == 1 else full[:1])

            ag.bulk_cut = cut
        if opname.endswith("-err"):
            err_memo = {}

            def answer_with_error(agent, pdu, resp):
                key = (tuple(o for o, _ in pdu["varbinds"]), pdu["f2"] if pdu["tag"] == snmp.PDU_GETBULK else None)
                if key not in err_memo:
                    err_memo[key] = ctx.choose(len(ERR_MENU), "err%r" % (key,))
                if not err_memo[key]:
                    return resp
                es, ei, echo = ERR_MENU[err_memo[key]]
                if ei == "beyond":
                    ei = len(pdu["varbinds"]) + 1
                return dict(resp, es=es, ei=ei, varbinds=list(pdu["varbinds"]) if echo else [])

            ag.response_hook = answer_with_error
        sender = world.sender_of(client)
        sender.handle = ag.handle
        sender.calls = []
        sender.limit = horizon
        world.LOGCAP.records.clear()
        try:
            result, exc = ops.run_op(client, op)
        except world.Horizon as hz:
            result, exc = None, hz
        ename = ops.exc_sig(exc)
        violations = []
        reqs = ag.requests()
        nreq = len(reqs)
        facts = {
            "op": opname + ("@v1" if v1 else ""),
            "universe": uname,
            "function": sorted((list(k[0]), k[1], list(v) if v is not None else None) for k, v in memo.items()),
            "requests": [[list(o) for o, _ in e["msg"]["pdu"]["varbinds"]] for e in reqs],
            "exception": ename,
            "family": family,
            "lenient": lenient,
        }

        def bad(kind, **detail):
            violations.append({"kind": kind, "detail": {**facts, **detail}, "facts": facts})

        if isinstance(exc, world.Horizon):
            bad("request-horizon-reached", horizon=horizon)
        if ename == "NeverCompletes":
            bad("operation-never-completes")
        # an answer with fewer bindings than columns asked for (down to none)
        # reveals nothing for some column; the client may ask once more for it
        # (an error response reveals nothing either)
        short = sum(1 for e in reqs if e.get("response", {}).get("es") or len(e.get("response", {}).get("varbinds", ())) < len(e["msg"]["pdu"]["varbinds"]))
        facts["short_answers"] = short
        if nreq > len(revealed) + len(roots) + 1 + short:
            bad("more-requests-than-revealed-instances", revealed=len(revealed))
        # (2) re-requests
        seen = set()
        rerequest = None
        for e in reqs:
            nresp = 0 if e.get("response", {}).get("es") else len(e.get("response", {}).get("varbinds", ()))
            for i, (o, _) in enumerate(e["msg"]["pdu"]["varbinds"]):
                if i >= nresp:
                    continue
                if o in seen and rerequest is None:
                    rerequest = o
                seen.add(o)
        if rerequest is not None:
            bad("oid-requested-again", oid=list(rerequest))
        # (3) non-advancing answers
        stalled = first_stall(reqs, family)
        facts["stalled"] = stalled
        if stalled is not None and nreq > stalled + 1:
            # the operation ends with that answer: nothing is requested after
            # it (after an answer with fewer bindings than asked for the client
            # may first ask for the rest of the row and judge the whole row)
            e = reqs[stalled]
            was_short = len(e.get("response", {}).get("varbinds", ())) < len(e["msg"]["pdu"]["varbinds"])
            if not was_short:
                bad("continued-after-non-advancing-answer", stalled_request=stalled, requests_made=nreq)
        if stalled is not None and not isinstance(exc, world.Horizon):
            if lenient:
                if exc is not None:
                    bad("lenient-walk-raised", message=str(exc)[:200])
            elif ename != "FaultySNMPImplementation":
                bad("non-advancing-answer-not-refused", result=result)
        # (4) yielded items
        if result is not None and op[0] not in ("table", "bulktable"):
            got = [o for o, _ in result]
            if len(set(got)) != len(got):
                bad("instance-yielded-twice", got=got)
            for o in got:
                if not any(models.is_prefix(r, o) for r in roots):
                    bad("foreign-instance-yielded", oid=list(o))
                    break
                if o not in revealed:
                    bad("invented-instance-yielded", oid=list(o))
                    break
        obs = (ename, result, nreq)
        return obs, violations

    return run


def first_stall(reqs, family):
    """index of the first request with a binding (that the client reads) not
    advancing beyond the OID requested at its position, else None"""
    for idx, e in enumerate(reqs):
        req = [o for o, _ in e["msg"]["pdu"]["varbinds"]]
        if e.get("response", {}).get("es"):
            continue  # an error response answers nothing (its bindings echo the request)
        resp = e.get("response", {}).get("varbinds", [])
        r = len(req)
        for i, (o, v) in enumerate(resp):
            if v == ragent.EOMV:
                break  # the client treats this as the end of the answer
            if family == "bulk" and i >= r:
                break  # only the first repetition is judged
            if i < r and not o > req[i]:
                return idx
    return None


def shards(tier):
    # the tree of one (operation, universe) is cut at its first decision
    # (|W|+1 alternatives) so that the sub-trees can run in parallel
    out = []
    for o, u, b in PLAN[tier]:
        for k in range(len(UNIVERSES[u]) + 1):
            out.append({"op": o, "universe": u, "bound": b, "tier": tier, "first": k})
    return out


def run_shard(params, acc):
    run = make_run(params["op"], params["universe"], None)
    bound = params["bound"]

    def on_exec(ctx, obs, violations):
        nontrivial = 1 if (any(ctx.choices) and obs[2] >= 2) else 0
        acc.count(evaluations=1, nontrivial=nontrivial, traces=1)
        acc.outcome("%s/%s" % (params["op"].split("-")[0][:8], obs[0]))
        acc.sample(
            {"op": params["op"], "universe": params["universe"], "choices": list(ctx.choices), "outcome": obs[0], "requests": obs[2]},
            interesting=bool(nontrivial and obs[2] >= 3),
        )

    stats, found = explore.explore(run, bound=bound, on_exec=on_exec, double_every=500, max_executions=MAX_EXEC[params["tier"]], root=(params["first"],))
    acc.count(evaluations=0, states=stats.nodes + stats.executions, transitions=stats.transitions)
    acc.maxi("max_depth", stats.max_depth)
    acc.bump("double_runs", stats.double_runs)
    key = "%s/%s/bound=%s/first=%d" % (params["op"], params["universe"], bound, params["first"])
    acc.extra.setdefault("per_shard", {})[key] = {"executions": stats.executions, "capped": stats.capped}
    if stats.capped:
        acc.extra["capped"] = 1
    seen = {}
    for choices, v in found:
        k = v["kind"]
        seen[k] = seen.get(k, 0) + 1
        if seen[k] > 2:
            continue
        v = dict(v)
        v["case"] = {"op": params["op"], "universe": params["universe"], "choices": list(choices)}
        acc.violation(v)
    for k, n in seen.items():
        acc.bump("violating_executions_" + k, n)


def replay(case):
    run = make_run(case["op"], case["universe"], None)
    _, obs, violations = explore.run_once(run, case["choices"])
    return violations


def meta(tier):
    return {
        "level": "model_checking",
        "rule": "choice tree per (operation, OID universe): the agent is a function (requested OID, repetition index) -> universe OID or endOfMibView chosen lazily at first evaluation (|W|+1 alternatives) and memoised; plan (operation, universe, deviation bound; None = every function reachable): %r; states = distinct partial agent functions reached (decision nodes), transitions = decisions; non-trivial = some answer differs from the conformant successor and at least two requests were made"
        % (PLAN[tier],),
        "exhaustive": True,
        "bounds": {"plan": [list(p) for p in PLAN[tier]], "max_executions_per_shard": MAX_EXEC[tier], "horizon": "3*|W|+6 requests"},
        "assumptions": [
            "agent answers every request with exactly one binding per requested OID and repetition (truncated answers belong to C02); in the -cut operations with fewer bindings down to none, in the -err operations with an error response (noSuchName / genErr / tooBig, error-index 0, 1, 2 or beyond the bindings, bindings echoed or absent), decided per distinct request",
            "bindings after the first endOfMibView of a response are not judged (the client discards them unread)",
        ],
    }
