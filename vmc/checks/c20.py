"""
C20 - no datagram, however malformed, can hang the client or exhaust memory.

Exhaustive fault enumeration under a resource budget.  Seeds are valid
datagrams produced by the reference side (v1 / v2c / SNMPv3 responses with 1
and 40 bindings, a GETBULK answer, an error response, a discovery reply, a
usmStats report, a v2c trap, a 60 KiB response, a response with 1500 bindings).  Mutations:

  bits        every single-bit flip
  trunc       every truncation
  header      every byte value at every TLV header position (tag and length
              octets as located by the reference decoder; includes 0x80
              indefinite, 0xFF, over-long lengths)
  lenclaim    every TLV's length field replaced by long forms claiming 2^16,
              2^31-1, 2^32-1 octets
  nesting     constructed headers nested up to depth 16 000

For SNMPv3 both the wire bytes are mutated (before authentication) and the
plaintext scoped PDU, which the agent then encrypts and signs (after
authentication).  Each mutated datagram is delivered as the answer to a Client
call (or as discovery reply, or to the trap listener); afterwards a valid
exchange on the same client (listener) must succeed.

Oracle: the call completes - result or exception - within a CPU-time budget of
0.25 s + 50 us per octet and (length-claim and nesting families; header family of the seeds up to 200 octets in the thorough tier) a peak
traced allocation of (what the unmutated exchange allocates) + 1 MiB + 200
octets per octet; the follow-up succeeds.
"""

import gc
import tracemalloc

from .. import budget, ops, world
from ..clock import CLOCK
from ..ref import agent as ragent
from ..ref import ber, snmp
from ..vloop import VLoop
from .c09 import has_indefinite_header

PROPERTY = "C20"

OID = (1, 3, 6, 1, 2, 1, 1, 1, 0)


def cpu_budget(n):
    return 0.25 + 50e-6 * n


def mem_budget(n):
    return (1 << 20) + 200 * n


SEEDS = {
    # name: (version, kind)
    "v2c-get1": ("v2c", "get1"),
    "v1-get1": ("v1", "get1"),
    "v2c-get40": ("v2c", "get40"),
    "v2c-bulk": ("v2c", "bulk"),
    "v2c-error": ("v2c", "error"),
    "v3noauth-get1": ("v3:noAuthNoPriv:md5", "get1"),
    "v3auth-get1": ("v3:authNoPriv:md5", "get1"),
    "v3priv-get1": ("v3:authPriv:sha1", "get1"),
    "v3auth-get1-after": ("v3:authNoPriv:md5", "get1-after"),
    "v3priv-get1-after": ("v3:authPriv:sha1", "get1-after"),
    "v3priv-get40-after": ("v3:authPriv:md5", "get40-after"),
    # engine id chosen so that a decoder which, after an indefinite length,
    # starts again at octet 1 of the scoped PDU (30 LL 04 0b <engine id> ...)
    # falls back into step with the real TLV boundaries: LL is read as a tag
    # with length 4, then 88 04, then 05 00, then the real contextName
    "v3priv-get1-after-realign": ("v3:authPriv:md5", "get1-after"),
    "v3auth-discovery": ("v3:authNoPriv:md5", "discovery"),
    # (the same engine id falls back into step inside the USM block:
    # 30 LL 04 0b <engine id> 02 01 boots ...)
    "v3auth-discovery-realign": ("v3:authNoPriv:md5", "discovery"),
    "v3auth-get1-realign": ("v3:authNoPriv:md5", "get1"),
    "v3auth-report": ("v3:authNoPriv:md5", "report"),
    "v2c-trap": ("v2c", "trap"),
    "v2c-60k": ("v2c", "big"),
    "v2c-get1500": ("v2c", "many"),
}

QUICK_SEEDS = ["v2c-get1", "v2c-error", "v3noauth-get1", "v3auth-get1", "v3priv-get1-after", "v3priv-get1-after-realign", "v3auth-discovery", "v3auth-discovery-realign", "v3auth-get1-realign", "v2c-trap", "v2c-get1500"]
REALIGN_ENGINE = b"\x80\x00\x1f\x88\x04agen\x05\x00"


class Target:
    """one seed: how to deliver a mutated datagram and how to follow up"""

    def __init__(self, name):
        self.name = name
        self.version, self.kind = SEEDS[name]
        self.fresh()

    def fresh(self):
        CLOCK.reset()
        world.reset_plugins()
        kind = self.kind
        n = 40 if "40" in kind else (1500 if kind == "many" else 1)
        self.oids = [OID[:-1] + (i,) for i in range(n)]
        db = {o: ("str", b"value-%d" % i) for i, o in enumerate(self.oids)}
        if kind == "big":
            db[self.oids[0]] = ("str", bytes(60000))
        self.db = db
        if kind == "trap":
            self.setup_trap()
            return
        if self.version == "v1":
            from puresnmp.credentials import V1

            self.agent = ragent.Agent(db)
            self.client, self.sender = world.make_client(V1("public"), self.agent.handle)
        elif self.version == "v2c":
            from puresnmp.credentials import V2C

            self.agent = ragent.Agent(db)
            self.client, self.sender = world.make_client(V2C("public"), self.agent.handle)
        else:
            _, level, method = self.version.split(":")
            kw = {"engine_id": REALIGN_ENGINE} if self.name.endswith("realign") else {}
            self.client, self.sender, self.agent = world.make_v3(db, level, method, **kw)
        self.mutate = None
        self.delivered = None
        self.armed = False
        if kind.endswith("-after"):
            self.agent.payload_hook = self._payload
        else:
            self.agent.bytes_hook = self._bytes
        if kind == "error":
            self.agent.response_hook = self._error
        if kind == "report":
            self.agent.time_skew = 0
        if kind != "discovery" and self.version.startswith("v3"):
            r, e = ops.run_op(self.client, ("get", self.oids[0]))  # discovery up front
            if e is not None:
                raise world.ScenarioUnavailable("seed %s: clean exchange fails: %r" % (self.name, e))

    # -- hooks ----------------------------------------------------------------
    def _error(self, agent, req, resp):
        if not self.armed:
            return resp
        resp = dict(resp)
        resp["es"], resp["ei"] = 5, 1
        resp["varbinds"] = list(req["varbinds"])
        return resp

    def _bytes(self, agent, req, resp):
        if not self.armed:
            return resp
        entry = agent.log[-1]
        if self.kind == "discovery" and not entry.get("discovery"):
            return resp
        if self.kind != "discovery" and entry.get("discovery"):
            return resp
        self.armed = False
        self.seed_bytes = resp
        out = self.mutate(resp) if self.mutate else resp
        self.delivered = out
        return out

    def _payload(self, agent, clear):
        if not self.armed:
            return clear
        self.armed = False
        self.seed_bytes = clear
        out = self.mutate(clear) if self.mutate else clear
        self.delivered = out
        return out

    # -- trap listener -----------------------------------------------------------
    def setup_trap(self):
        from puresnmp.api.raw import register_trap_callback
        from puresnmp.credentials import V2C

        self.loop = VLoop()
        self.got = []

        async def cb(pdu):
            self.got.append(pdu.value.request_id)

        register_trap_callback(cb, listen_address="0.0.0.0", port=16201, credentials=V2C("public"), loop=self.loop)
        vbs = [((1, 3, 6, 1, 2, 1, 1, 3, 0), ("tt", 1)), ((1, 3, 6, 1, 6, 3, 1, 1, 4, 1, 0), ("oid", (1, 3, 6, 1, 6, 3, 1, 1, 5, 3))), (OID, ("str", b"payload"))]
        self.seed_bytes = snmp.community_msg_node(1, b"public", snmp.pdu_node(snmp.PDU_TRAP, 77, 0, 0, vbs)).encode()
        self.follow = snmp.community_msg_node(1, b"public", snmp.pdu_node(snmp.PDU_TRAP, 78, 0, 0, vbs)).encode()

    # -- one case ------------------------------------------------------------------
    def seed(self):
        """the unmutated datagram (bytes the mutations are applied to)"""
        if self.kind == "trap":
            return self.seed_bytes
        self.mutate = None
        self.armed = True
        self.op_once()
        return self.seed_bytes

    def operation(self):
        if self.kind == "bulk":
            return ("bulkget", [], [OID[:-2]], 5)
        if self.kind in ("get40", "get40-after", "many"):
            return ("multiget", list(self.oids))
        if self.kind == "report":
            return ("get", self.oids[0])
        return ("get", self.oids[0])

    def op_once(self):
        self.sender.calls = []
        self.sender.limit = 6
        if self.kind == "discovery":
            # a fresh client per case: discovery happens on first use
            self.fresh_client()
        if self.kind == "report":
            # the agent answers this request with a notInTimeWindow report
            saved = self.agent.boots
            self.agent.boots = saved + 1
            try:
                return ops.run_op(self.client, self.operation())
            finally:
                self.agent.boots = saved
        try:
            return ops.run_op(self.client, self.operation())
        except world.Horizon as hz:
            return None, hz

    def fresh_client(self):
        _, level, method = self.version.split(":")
        user, creds = world.v3_user(level, method)
        self.client, self.sender = world.make_client(creds, self.agent.handle)

    def deliver(self, mutate, measure_memory):
        """-> (outcome, over, peak, follow_ok, delivered bytes)"""
        if self.kind == "trap":
            return self.deliver_trap(mutate, measure_memory)
        self.mutate = mutate
        self.armed = True
        self.delivered = None
        del self.agent.log[:]  # (the log would grow without bound over a shard)
        del world.LOGCAP.records[:]
        try:
            n = max(len(self.seed_bytes), len(mutate(self.seed_bytes))) + 64
        except Exception:  # noqa
            n = len(self.seed_bytes) + 64

        def call():
            return self.op_once()

        peak = None
        if measure_memory:
            tracemalloc.start()
        value, over = budget.run(call, cpu_budget(n) * (4 if measure_memory else 1))
        if measure_memory:
            _, peak = tracemalloc.get_traced_memory()
            tracemalloc.stop()
        if over is None and value is not None and isinstance(value[1], budget.BudgetExceeded):
            over = value[1]
        self.armed = False
        delivered = self.delivered
        if over is not None:
            self.fresh()
            return ("budget", None), over, peak, None, delivered
        result, exc = value
        if isinstance(exc, world.Horizon):
            # the client keeps sending requests in answer to one datagram
            self.fresh()
            return ("Horizon", None), None, peak, ("runaway", len(self.sender.calls)), delivered
        if self.kind == "discovery" and any(not e.get("discovery") for e in self.agent.log[-3:] if e.get("raw") in [c[1] for c in self.sender.calls]):
            # the mutated discovery reply was accepted as a (different but
            # well-formed) discovery result and a request was sent after it:
            # the client is mis-synchronised, not broken by a malformed
            # datagram - no verdict on the follow-up
            self.fresh()
            return (ops.exc_sig(exc), result), None, peak, None, delivered
        # follow-up: a valid exchange on the same client
        self.mutate = None
        fr, fe = self.follow_up()
        follow_ok = fe is None and fr == self.db[self.oids[0]]
        return (ops.exc_sig(exc), result), None, peak, (follow_ok, ops.exc_sig(fe)), delivered

    def follow_up(self):
        self.sender.calls = []
        self.sender.limit = 6
        try:
            return ops.run_op(self.client, ("get", self.oids[0]))
        except world.Horizon as hz:
            return None, hz

    def deliver_trap(self, mutate, measure_memory):
        data = mutate(self.seed_bytes)
        tr = self.loop.transports[0]
        n0 = len(self.got)

        def call():
            with self.loop.running():
                self.loop.call_soon(tr.inject_datagram, data, ("192.0.2.9", 162))
                self.loop.run_until_idle(horizon=CLOCK.mono + 1)

        peak = None
        if measure_memory:
            gc.collect()
            tracemalloc.start()
        value, over = budget.run(call, cpu_budget(len(data) + 64) * (4 if measure_memory else 1))
        if measure_memory:
            _, peak = tracemalloc.get_traced_memory()
            tracemalloc.stop()
        if over is not None:
            try:
                self.loop.close()
            except Exception:  # noqa
                pass
            self.fresh()
            return ("budget", None), over, peak, None, data
        del self.loop.logged[:]
        with self.loop.running():
            self.loop.call_soon(tr.inject_datagram, self.follow, ("192.0.2.9", 162))
            self.loop.run_until_idle(horizon=CLOCK.mono + 1)
        follow_ok = 78 in self.got[n0:]
        del self.got[:]
        return ("delivered" if False else "handled", None), None, peak, (follow_ok, None), data


# ---------------------------------------------------------------------------
# mutation families
# ---------------------------------------------------------------------------


def header_positions(data):
    """offsets of tag and length octets of every TLV the reference decoder
    finds (descending into OCTET STRINGs that hold BER: the USM block)"""
    pos = []

    def walk(node, base=0):
        for t in node.walk():
            for k in range(t.hlen):
                pos.append(base + t.start + k)

    try:
        root = ber.parse_all(data)
    except ber.BerError:
        return list(range(min(len(data), 16)))
    walk(root)
    # nested BER inside OCTET STRINGs (security parameters)
    for t in root.walk():
        if t.tag == 0x04 and t.length >= 2 and t.content[:1] == b"\x30":
            try:
                inner = ber.parse_all(t.content)
                walk(inner, t.cstart)
            except ber.BerError:
                pass
    return sorted(set(pos))


def tlvs(data):
    try:
        return list(ber.parse_all(data).walk())
    except ber.BerError:
        return []


INT_TAGS = (0x02, 0x41, 0x42, 0x43, 0x46)


def bigint_variants(t, base=0):
    """(absolute offset, (octets, sign), re-encoded TLV) for every integer-like
    value below t replaced by a far wider one; enclosing lengths are
    re-computed so that the datagram stays well-formed; descends into OCTET
    STRINGs that hold BER (the USM block)"""
    if t.children is not None:
        for i, c in enumerate(t.children):
            for pos, desc, new_c in bigint_variants(c, base):
                content = b"".join(new_c if j == i else ch.raw for j, ch in enumerate(t.children))
                yield pos, desc, bytes([t.tag]) + ber.enc_len(len(content)) + content
    elif t.tag in INT_TAGS:
        for k in (5, 9, 17, 64):
            for sign, content in (("+", b"\x7f" + b"\xff" * (k - 1)), ("-", b"\x80" + b"\x00" * (k - 1))):
                yield base + t.start, (k, sign), bytes([t.tag]) + ber.enc_len(k) + content
    elif t.tag == 0x04 and t.length >= 2 and t.content[:1] == b"\x30":
        try:
            inner = ber.parse_all(t.content)
        except ber.BerError:
            return
        for pos, desc, new_inner in bigint_variants(inner, base + t.cstart):
            yield pos, desc, b"\x04" + ber.enc_len(len(new_inner)) + new_inner


def family_cases(family, seed, tier, big):
    """-> list of (label, mutate function)"""
    n = len(seed)
    out = []
    if family == "bits":
        rng = range(n * 8) if not big else []
        for bit in rng:
            out.append((("bit", bit), lambda d, bit=bit: d[: bit // 8] + bytes([d[bit // 8] ^ (0x80 >> (bit % 8))]) + d[bit // 8 + 1 :]))
    elif family == "trunc":
        cuts = range(0, n) if not big else sorted(set(list(range(0, 64)) + list(range(0, n, 997)) + [n - 1, n - 2]))
        for k in cuts:
            out.append((("trunc", k), lambda d, k=k: d[:k]))
        if big:
            out.append((("identity",), lambda d: d))
    elif family == "header":
        positions = header_positions(seed)
        values = range(256)
        if big:
            # large seeds: the first headers, a spread of later ones and the
            # octet values that change how a header is read
            positions = positions[:24] + positions[24:: max(1, len(positions) // 12)]
            values = [0x00, 0x01, 0x02, 0x04, 0x05, 0x06, 0x30, 0x7F, 0x80, 0x81, 0x82, 0x84, 0x88, 0xA2, 0xFE, 0xFF]
        for p in positions:
            for val in values:
                if val == seed[p]:
                    continue
                out.append((("header", p, val), lambda d, p=p, val=val: d[:p] + bytes([val]) + d[p + 1 :]))
    elif family == "header-modal":
        # the header positions again, with the octet values that change how a
        # header is read (run with the application's logging at DEBUG)
        positions = header_positions(seed)
        if big:
            positions = positions[:24] + positions[24:: max(1, len(positions) // 12)]
        for p in positions:
            for val in (0x80, 0x81, 0x84, 0x00, 0xFF, 0x30, 0x04, 0x02):
                if val == seed[p]:
                    continue
                out.append((("header", p, val), lambda d, p=p, val=val: d[:p] + bytes([val]) + d[p + 1 :]))
    elif family == "lenclaim":
        ts = tlvs(seed)
        if big and len(ts) > 60:
            ts = ts[:30] + ts[30::211]
        for t in ts:
            for claim in (b"\x82\xff\xff", b"\x84\x7f\xff\xff\xff", b"\x84\xff\xff\xff\xff", b"\x88" + b"\xff" * 8, b"\x80"):
                out.append((("lenclaim", t.start, claim.hex()), lambda d, t=t, claim=claim: d[: t.start + 1] + claim + d[t.start + t.hlen :]))
    elif family == "bigint":
        try:
            root = ber.parse_all(seed)
        except ber.BerError:
            root = None
        if root is not None:
            vs = list(bigint_variants(root))
            if big and len(vs) > 400:
                vs = vs[:200] + vs[200::97]
            for pos, (k, sign), new in vs:
                out.append((("bigint", pos, k, sign), lambda d, new=new: new))
    elif family == "nesting":
        for depth in (10, 100, 1000, 4000, 16000):
            for tag in (0x30, 0xA2):
                def bomb(d, depth=depth, tag=tag):
                    body = b"\x02\x01\x01"
                    for _ in range(depth):
                        body = bytes([tag]) + ber.enc_len(len(body)) + body
                    return body
                out.append((("nesting", depth, tag), bomb))
            def wide(d, depth=depth):
                return b"\x30" + ber.enc_len(2 * depth) + b"\x05\x00" * depth
            out.append((("wide", depth), wide))
    return out


def run_stubborn(acc):
    """agents that answer *every* datagram of an operation the same way: with
    a notInTimeWindow / unknownEngineID / wrongDigest report (authenticated or
    not), with the same malformed datagram, with an empty datagram.  One call
    may only cause a small, fixed number of requests."""
    from ..ref import usm as rusm

    kinds = ["report-notInTimeWindows", "report-notInTimeWindows-unauthenticated", "report-unknownEngineIDs", "report-wrongDigests", "report-unknownUserNames", "garbage", "empty", "truncated"]
    for level in ("noAuthNoPriv:md5", "authNoPriv:md5", "authPriv:sha1"):
        for kind in kinds:
            for opname in ("get", "walk"):
                CLOCK.reset()
                world.reset_plugins()
                lv, method = level.split(":")
                client, sender, ag = world.make_v3({OID: ("str", b"v")}, lv, method)
                user = list(ag.users.values())[0]

                def hook(agent, req, resp, kind=kind, user=user):
                    entry = agent.log[-1]
                    if entry.get("discovery"):
                        return resp
                    msg = entry["msg"]
                    if kind.startswith("report-"):
                        stat = kind.split("-")[1]
                        auth_user = user if (user.auth and "unauthenticated" not in kind and stat == "notInTimeWindows") else None
                        return agent._report(msg, stat, auth_user, entry.get("pdu", {}).get("request_id", 0))
                    if kind == "garbage":
                        return b"\x30\x82\x00\x10garbage-garbage!"
                    if kind == "empty":
                        return b""
                    return resp[: len(resp) // 2]

                ag.bytes_hook = hook
                sender.limit = 12
                op = ("get", OID) if opname == "get" else ("walk", OID[:-2])

                def call():
                    try:
                        return ops.run_op(client, op)
                    except world.Horizon as hz:
                        return None, hz

                value, over = budget.run(call, 2.0)
                nreq = len(sender.calls)
                facts = {"family": "stubborn", "level": level, "agent_answers_always": kind, "op": opname, "requests": nreq}
                violations = []
                if over is not None:
                    facts["indefinite_length_octet"] = False
                    facts["in_x690"] = any("x690/" in f for f in over.frames[:3])
                    violations.append({"kind": "processing-exceeds-cpu-budget", "detail": {**facts, "frames": over.frames[:6]}, "facts": facts})
                elif isinstance(value[1], world.Horizon) or nreq > 6:
                    violations.append({"kind": "client-keeps-sending-requests", "detail": {**facts, "exception": ops.exc_sig(value[1])}, "facts": facts})
                acc.count(evaluations=1, nontrivial=1)
                acc.outcome("stubborn/%s" % (ops.exc_sig(value[1]) if over is None else "budget"))
                for v in violations:
                    v["case"] = {"stubborn": [level, kind, opname]}
                    acc.violation(v)
    acc.sample({"family": "stubborn agents", "answers": kinds})


def run_retention(acc):
    """memory *retained* after many refused datagrams (module-level caches):
    N forged responses, each naming another engine id / user / community; the
    retained growth must not scale with N"""
    import gc as _gc

    def measure(n, level):
        CLOCK.reset()
        world.reset_plugins()
        lv, method = level.split(":")
        if lv == "v2c":
            from puresnmp.credentials import V2C

            ag = ragent.Agent({OID: ("str", b"v")})
            client, sender = world.make_client(V2C("public"), ag.handle)
        else:
            client, sender, ag = world.make_v3({OID: ("str", b"v")}, lv, method)
        ops.run_op(client, ("get", OID))
        counter = {"i": 0}

        def hook(agent, req, resp):
            entry = agent.log[-1]
            if entry.get("discovery") or not counter.get("armed"):
                return resp
            counter["i"] += 1
            i = counter["i"]
            if lv == "v2c":
                return snmp.community_msg_node(1, b"c%06d" % i + bytes(200), snmp.pdu_node(snmp.PDU_RESPONSE, 1, 0, 0, [])).encode()
            msg = entry["msg"]
            eid = b"\x80\x00\x1f\x88\x05" + i.to_bytes(4, "big") + bytes(2000)
            uname = msg["usm"]["user"] if i % 2 else b"u%06d" % i
            sp = snmp.usm_params_node(eid, 7, 1000, uname, b"\x11" * 12 if msg["flags"] & 1 else b"", b"")
            pdu = snmp.pdu_node(snmp.PDU_RESPONSE, msg["msg_id"], 0, 0, [])
            return snmp.v3_msg_node(msg["msg_id"], 65507, msg["flags"] & 1, 3, sp.encode(), snmp.scoped_pdu_node(eid, b"", pdu)).encode()

        ag.bytes_hook = hook
        _gc.collect()
        tracemalloc.start()
        base = tracemalloc.get_traced_memory()[0]
        counter["armed"] = True
        for _ in range(n):
            del ag.log[:]
            sender.calls = []
            ops.run_op(client, ("get", OID))
        counter["armed"] = False
        del ag.log[:]
        sender.calls = []
        del world.LOGCAP.records[:]
        _gc.collect()
        kept = tracemalloc.get_traced_memory()[0] - base
        tracemalloc.stop()
        ok_after = ops.run_op(client, ("get", OID))
        return kept, ok_after

    for level in ("v2c:-", "noAuthNoPriv:md5", "authNoPriv:md5", "authPriv:sha1"):
        k1, _ = measure(40, level)
        k2, after = measure(240, level)
        growth = k2 - k1
        facts = {"family": "retention", "level": level, "retained_after_40": k1, "retained_after_240": k2}
        acc.count(evaluations=2, nontrivial=2)
        violations = []
        if growth > 64 * 1024:
            violations.append({"kind": "memory-retained-per-refused-datagram", "detail": {**facts, "growth_for_200_more_datagrams": growth}, "facts": facts})
        if after[1] is not None:
            violations.append({"kind": "client-unusable-after-malformed-datagram", "detail": {**facts, "follow_up_exception": ops.exc_sig(after[1])}, "facts": facts})
        acc.outcome("retention/%s" % ("ok" if not violations else violations[0]["kind"]))
        acc.maxi("max_retained_growth_bytes", growth)
        for v in violations:
            v["case"] = {"retention": level}
            acc.violation(v)
    acc.sample({"family": "retention", "datagrams": [40, 240]})


def shards(tier):
    names = QUICK_SEEDS if tier == "quick" else list(SEEDS)
    out = []
    for name in names:
        fams = ["bits", "trunc", "header", "lenclaim", "bigint"]
        for fam in fams:
            if fam == "header":
                for part in range(8):
                    out.append({"tier": tier, "seed": name, "family": fam, "part": part, "of": 8})
            elif fam == "bits":
                for part in range(4):
                    out.append({"tier": tier, "seed": name, "family": fam, "part": part, "of": 4})
            elif SEEDS[name][1] in ("big", "many"):
                for part in range(8):
                    out.append({"tier": tier, "seed": name, "family": fam, "part": part, "of": 8})
            else:
                out.append({"tier": tier, "seed": name, "family": fam, "part": 0, "of": 1})
    # with the application's logging at DEBUG (datagrams and messages are
    # dumped / pretty-printed on their way in)
    for name in names:
        if SEEDS[name][1] not in ("big", "many"):
            out.append({"tier": tier, "seed": name, "family": "header-modal", "part": 0, "of": 1, "lib_log": "DEBUG"})
            out.append({"tier": tier, "seed": name, "family": "lenclaim", "part": 0, "of": 1, "lib_log": "DEBUG"})
    for name in ("v2c-get1", "v3noauth-get1", "v2c-trap"):
        out.append({"tier": tier, "seed": name, "family": "nesting", "part": 0, "of": 1})
    out.append({"tier": tier, "special": "stubborn"})
    out.append({"tier": tier, "special": "retention"})
    return out


def run_shard(params, acc):
    import resource

    if params.get("special") == "stubborn":
        run_stubborn(acc)
        return
    if params.get("special") == "retention":
        run_retention(acc)
        return
    try:
        resource.setrlimit(resource.RLIMIT_AS, (6 << 30, 6 << 30))
    except (ValueError, OSError):
        pass
    target = Target(params["seed"])
    seed = target.seed()
    big = target.kind in ("big", "many")
    fam = params["family"]
    small = len(seed) <= 200
    measure = fam in ("lenclaim", "nesting", "bigint") or (fam == "header" and small and params["tier"] == "thorough")
    baseline = 0
    if measure:
        # what the unmutated exchange allocates (e.g. the 1 MiB buffer of the
        # RFC 3414 key derivation): the budget is on top of it
        for _ in range(2):
            _, _, bpeak, _, _ = target.deliver(lambda d: d, True)
            baseline = max(baseline, bpeak or 0)
    cases = family_cases(fam, seed, params["tier"], big)[params["part"] :: params["of"]]
    reported = {}
    for label, mutate in cases:
        outcome, over, peak, follow, delivered = target.deliver(mutate, measure)
        n = len(delivered) if delivered is not None else len(seed)
        facts = {"seed": params["seed"], "mutation": list(label), "datagram_octets": n, "outcome": outcome[0]}
        violations = []
        if over is not None:
            facts["indefinite_length_octet"] = bool(delivered) and has_indefinite_header(delivered)
            facts["frames"] = over.frames[:6]
            facts["in_x690"] = any("x690/" in f for f in over.frames[:3])
            violations.append({"kind": "processing-exceeds-cpu-budget", "detail": {**facts, "budget_s": cpu_budget(n)}, "facts": facts})
        else:
            if peak is not None and peak > baseline + mem_budget(n):
                facts["indefinite_length_octet"] = bool(delivered) and has_indefinite_header(delivered)
                violations.append({"kind": "allocation-exceeds-memory-budget", "detail": {**facts, "peak": peak, "baseline": baseline, "budget": baseline + mem_budget(n)}, "facts": facts})
            if outcome[0] == "NeverCompletes":
                violations.append({"kind": "processing-never-completes", "detail": dict(facts), "facts": facts})
            if follow is not None and follow[0] == "runaway":
                violations.append({"kind": "client-keeps-sending-requests", "detail": {**facts, "requests": follow[1]}, "facts": facts})
            elif follow is not None and not follow[0]:
                violations.append({"kind": "client-unusable-after-malformed-datagram", "detail": {**facts, "follow_up_exception": follow[1]}, "facts": facts})
        acc.count(evaluations=1, nontrivial=1)
        acc.outcome(str(outcome[0]) if over is None else "budget")
        if peak is not None:
            acc.maxi("max_peak_traced_bytes", peak)
        for v in violations:
            k = (v["kind"], facts.get("indefinite_length_octet"))
            reported[k] = reported.get(k, 0) + 1
            if reported[k] > 3 and v["kind"] != "processing-exceeds-cpu-budget":
                continue
            v["case"] = {"seed": params["seed"], "family": fam, "label": list(label)}
            acc.violation(v)
    acc.sample({"seed": params["seed"], "family": fam, "seed_octets": len(seed), "cases": len(cases), "first": [list(c[0]) for c in cases[:2]]})


def replay(case):
    if "stubborn" in case or "retention" in case:
        class A:
            def __init__(self):
                self.v = []
                self.extra = {}
            def count(self, **k): pass
            def outcome(self, *a, **k): pass
            def sample(self, *a, **k): pass
            def maxi(self, *a, **k): pass
            def violation(self, v): self.v.append(v)
        a = A()
        (run_stubborn if "stubborn" in case else run_retention)(a)
        return [v for v in a.v if v["case"] == case]
    target = Target(case["seed"])
    seed = target.seed()
    label = tuple(case["label"])
    cases = dict((tuple(l), m) for l, m in family_cases(case["family"], seed, "thorough", target.kind in ("big", "many")))
    if case["family"] == "header-modal":
        cases = dict((tuple(l), m) for l, m in family_cases("header", seed, "thorough", target.kind in ("big", "many")))
    mutate = cases.get(label)
    if mutate is None:
        return [{"kind": "replay-case-not-found", "detail": case}]
    outcome, over, peak, follow, delivered = target.deliver(mutate, case["family"] in ("lenclaim", "nesting", "bigint"))
    out = []
    if over is not None:
        facts = {"seed": case["seed"], "mutation": list(label), "indefinite_length_octet": bool(delivered) and has_indefinite_header(delivered), "in_x690": any("x690/" in f for f in over.frames[:3])}
        out.append({"kind": "processing-exceeds-cpu-budget", "detail": {**facts, "frames": over.frames[:6]}, "facts": facts})
    elif outcome[0] == "NeverCompletes":
        out.append({"kind": "processing-never-completes", "detail": {}})
    elif follow is not None and not follow[0]:
        out.append({"kind": "client-unusable-after-malformed-datagram", "detail": {"follow_up_exception": follow[1]}})
    return out


def meta(tier):
    names = QUICK_SEEDS if tier == "quick" else list(SEEDS)
    return {
        "level": "fault_enumeration",
        "rule": "seeds %r; per seed every single-bit flip, every truncation, every other byte value at every TLV header position located by the reference decoder, every TLV length replaced by over-long / indefinite claims; nesting and width bombs up to 16000 levels; SNMPv3 seeds mutated on the wire (before authentication) and in the plaintext scoped PDU that the agent then encrypts and signs (after authentication); each case = one Client call (discovery, trap delivery) under a CPU budget of 0.25 s + 50 us/octet (and a traced-allocation budget of 1 MiB + 200 B/octet for the header, length-claim and nesting families) plus a valid follow-up exchange on the same client; every case is a distinct mutated datagram"
        % (names,),
        "exhaustive": True,
        "bounds": {"seeds": names},
        "assumptions": ["budgets are CPU time (ITIMER_VIRTUAL) and traced allocations, never wall clock", "random byte strings of the quantifier are sampling and not part of the claim", "for the 60 KiB and the 1500-binding seeds bit flips are omitted and truncations, header positions / values and length claims are thinned (the evidence samples state the case counts)"],
    }
