"""
C12 - discovery happens first and timeliness is kept for the client's whole
life.

Explicit-state search over histories of

    op (get / set / getnext / bulkget) | advance(seconds) | reboot

on one SNMPv3 client against the reference agent; client, agent and event loop
share one virtual clock.  Histories are normalised (adjacent clock advances add
up - the client does nothing in between) and de-duplicated on their normal
form; every operation of every history is judged.

Oracle: the first datagram of a fresh client is a discovery probe; later
requests carry the discovered engine id as security engine id and as context
engine id; every operation returns the agent's value (what succeeds right after
discovery succeeds at any later point); a discovery reply with a foreign
message id raises InvalidResponseId and nothing else is sent; no request reaches
the agent outside its time window unless the agent rebooted since the last
successful operation (then at most one).
"""

from .. import ops, world
from ..clock import CLOCK
from ..ref import agent as ragent
from ..ref import snmp

PROPERTY = "C12"

DB = {
    (1, 3, 6, 1, 2, 1, 1, 5, 0): ("str", b"host"),
    (1, 3, 6, 1, 2, 1, 1, 6, 0): ("str", b"room"),
}
OPS = {
    "get": ("get", (1, 3, 6, 1, 2, 1, 1, 5, 0)),
    "set": ("set", (1, 3, 6, 1, 2, 1, 1, 6, 0), ("str", b"lab")),
    "getnext": ("getnext", (1, 3, 6, 1, 2, 1, 1, 5, 0)),
    "bulkget": ("bulkget", [], [(1, 3, 6, 1, 2, 1, 1)], 2),
}
EXPECT = {
    "get": ("str", b"host"),
    "set": ("str", b"lab"),
    "getnext": ((1, 3, 6, 1, 2, 1, 1, 6, 0), None),  # value depends on earlier sets
    "bulkget": None,
}


def alphabet(tier):
    if tier == "quick":
        return [("op", "get"), ("op", "set")] + [("advance", d) for d in (1, 151, 86400)] + [("reboot",), ("switch", "configure"), ("switch", "reconfigure")]
    return [("op", o) for o in OPS] + [("advance", d) for d in (1, 100, 149, 150, 151, 1000, 86400, 2592000)] + [("reboot",), ("switch", "configure"), ("switch", "reconfigure")]


def bounds(tier):
    return {"depth": 5, "levels": ["authNoPriv:md5", "authPriv:sha1"] if tier == "quick" else ["noAuthNoPriv:md5", "authNoPriv:md5", "authPriv:sha1"]}


def normalise(hist):
    out = []
    for ev in hist:
        if ev[0] == "advance" and out and out[-1][0] == "advance":
            out[-1] = ("advance", out[-1][1] + ev[1])
        else:
            out.append(tuple(ev))
    return tuple(out)


def run_history(level, hist):
    """replay one history on a fresh client; -> (violations, n exchanges,
    outcome per op)"""
    CLOCK.reset()
    world.reset_plugins()
    lv, method = level.split(":")
    client, sender, ag = world.make_v3(DB, lv, method)
    out = []
    outcomes = []
    rebooted = False
    reboot_pending = False  # the agent rebooted since the last successful operation
    switched = False
    disc_at = None
    for i, ev in enumerate(hist):
        if ev[0] == "advance":
            CLOCK.advance(ev[1])
        elif ev[0] == "switch":
            # the client is temporarily / permanently moved to SNMPv2c and back
            from puresnmp.credentials import V2C

            v3creds = client.config.credentials
            if ev[1] == "configure":
                client.configure(credentials=V2C("public"))
                client.configure(credentials=v3creds)
            else:
                with client.reconfigure(credentials=V2C("public")):
                    pass
            switched = True
        elif ev[0] == "reboot":
            ag.reboot()
            rebooted = disc_at is not None
            reboot_pending = disc_at is not None
        else:
            name = ev[1]
            n0 = len(ag.log)
            result, exc = ops.run_op(client, OPS[name])
            new = ag.log[n0:]
            if disc_at is None:
                disc_at = CLOCK.now
            facts = {
                "level": level,
                "history": [list(e) for e in hist[: i + 1]],
                "op": name,
                "exception": ops.exc_sig(exc),
                "agent_verdicts": [e.get("verdict") for e in new],
                "agent_rebooted_since_discovery": rebooted,
                "seconds_since_discovery": CLOCK.now - disc_at,
            }

            def bad(kind, **detail):
                out.append({"kind": kind, "detail": {**facts, **detail, "message": str(exc)[:200] if exc else None}, "facts": facts})

            first = n0 == 0
            facts["switched_credential_family_and_back"] = switched
            if first:
                if not new or not new[0].get("discovery"):
                    bad("first-datagram-is-not-a-discovery-probe")
                else:
                    dm = new[0]["msg"]
                    if dm["flags"] != 4 or dm["usm"]["user"] != b"" or "scoped" not in dm or dm["scoped"]["pdu"]["varbinds"]:
                        bad("malformed-discovery-probe")
            for e in new:
                m = e.get("msg")
                if m is None or e.get("discovery"):
                    continue
                if m["usm"]["engine_id"] != ag.engine_id:
                    bad("security-engine-id-is-not-the-discovered-one", got=m["usm"]["engine_id"])
                sc = m.get("scoped")
                if sc is not None and e.get("verdict") == "ok" and sc["context_engine_id"] != ag.engine_id:
                    bad("context-engine-id-is-not-the-discovered-one", got=sc["context_engine_id"])
            # what is *sent* must stay inside the agent's window as its clock
            # advances: only a reboot (which no client can foresee) may cost
            # one refused request
            outside = [e for e in new if e.get("verdict") == "not-in-time-window"]
            if outside and not reboot_pending:
                bad("request-outside-the-time-window-without-a-reboot", sent=[(e["msg"]["usm"]["boots"], e["msg"]["usm"]["time"]) for e in outside], agent=(ag.boots, ag.engine_time))
            elif len(outside) > 1:
                bad("several-requests-outside-the-time-window-after-one-reboot", count=len(outside))
            if exc is None:
                reboot_pending = False
            ok = exc is None
            if ok and name in ("get", "set") and result != EXPECT[name]:
                bad("wrong-value-returned", got=result)
                ok = False
            if exc is not None:
                bad("operation-fails-later-in-the-clients-life")
            outcomes.append((name, ops.exc_sig(exc)))
            if exc is not None and not isinstance(exc, Exception):
                break
    return out, len(ag.log), outcomes


def discovery_variants(level, acc):
    """first exchange: matching / foreign message id, no bindings, empty
    engine id"""
    lv, method = level.split(":")
    for variant in ("matching", "msgid+1", "msgid-foreign", "msgid+2^31", "msgid-2^31", "msgid+2^32", "no-bindings", "empty-engine-id"):
        CLOCK.reset()
        world.reset_plugins()
        client, sender, ag = world.make_v3(DB, lv, method)
        orig_report = ag._report

        def mhook(agent, req, fields, variant=variant):
            if req["usm"]["engine_id"] != b"" or agent.log[-1].get("discovery") is not True:
                return fields
            fields = dict(fields)
            if variant == "msgid+1":
                fields["msg_id"] += 1
            elif variant == "msgid-foreign":
                fields["msg_id"] = 77
            elif variant == "msgid+2^31":
                fields["msg_id"] += 2**31
            elif variant == "msgid-2^31":
                fields["msg_id"] -= 2**31
            elif variant == "msgid+2^32":
                fields["msg_id"] += 2**32
            elif variant == "empty-engine-id":
                fields["engine_id"] = b""
            return fields

        ag.msg_hook = mhook
        if variant == "no-bindings":
            def report(req, stat, level_user=None, request_id=0):
                ag.stats[stat] += 1
                pdu = snmp.pdu_node(snmp.PDU_REPORT, request_id, 0, 0, [])
                return ag._wrap(req, pdu, None, 0, b"", ag.engine_id, b"")

            ag._report = report
        result, exc = ops.run_op(client, OPS["get"])
        facts = {"level": level, "discovery_variant": variant, "exception": ops.exc_sig(exc), "datagrams": len(ag.log)}
        viol = []
        if variant.startswith("msgid"):
            if ops.exc_sig(exc) != "InvalidResponseId":
                viol.append({"kind": "foreign-discovery-message-id-not-refused", "detail": {**facts, "result": result}, "facts": facts})
            if len(ag.log) != 1:
                viol.append({"kind": "request-sent-after-foreign-discovery-reply", "detail": facts, "facts": facts})
        elif variant == "matching":
            if exc is not None or result != EXPECT["get"]:
                viol.append({"kind": "operation-fails-right-after-discovery", "detail": {**facts, "message": str(exc)[:200]}, "facts": facts})
        if variant != "matching":
            # the agent answers properly from now on: the same client works
            ag.msg_hook = None
            ag._report = orig_report
            n0 = len(ag.log)
            again, exc2 = ops.run_op(client, OPS["get"])
            facts["second_operation_exception"] = ops.exc_sig(exc2)
            facts["second_operation_datagrams"] = len(ag.log) - n0
            if variant == "empty-engine-id" and exc is None:
                pass  # (an empty engine id that was accepted is judged by C20)
            elif exc2 is not None or again != EXPECT["get"]:
                viol.append({"kind": "client-does-not-recover-after-a-refused-discovery-reply", "detail": {**facts, "message": str(exc2)[:200]}, "facts": facts})
        acc.count(evaluations=1, nontrivial=1, states=1, transitions=len(ag.log), traces=1)
        acc.outcome("discovery:%s:%s" % (variant, ops.exc_sig(exc)))
        for v in viol:
            v["case"] = {"level": level, "discovery_variant": variant}
            acc.violation(v)


STEADY = {"quick": [(0.5, 400), (0.9, 200), (1.75, 230), (149.5, 12)], "thorough": [(0.25, 800), (0.5, 500), (0.9, 400), (1.75, 400), (59.9, 60), (149.5, 40), (149.99, 40)]}


def steady_runs(level, tier, acc):
    """long-lived client with a steady request rhythm: n requests, each
    *spacing* seconds after the previous one (non-integral spacings: a client
    that rounds its clock per request must not drift out of the window)"""
    for spacing, n in STEADY[tier]:
        hist = tuple(x for _ in range(n) for x in (("op", "get"), ("advance", spacing)))[:-1]
        violations, nreq, outcomes = run_history(level, hist)
        acc.count(evaluations=1, nontrivial=1, states=len(hist), transitions=nreq, traces=1)
        acc.outcome("steady/%s" % ("ok" if not violations else violations[0]["kind"]))
        acc.sample({"level": level, "family": "steady", "spacing_s": spacing, "requests": n, "failed": sum(1 for o in outcomes if o[1])})
        for v in violations[:1]:
            v["detail"]["history"] = "get every %s s, %d times" % (spacing, n)
            v["facts"]["history"] = v["detail"]["history"]
            v["case"] = {"level": level, "steady": [spacing, n]}
            acc.violation(v)


def shards(tier):
    b = bounds(tier)
    out = []
    for level in b["levels"]:
        if level != "noAuthNoPriv:md5":
            out.append({"tier": tier, "level": level, "steady": True})
        for first in alphabet(tier):
            out.append({"tier": tier, "level": level, "first": list(first)})
        out.append({"tier": tier, "level": level, "discovery": True})
    return out


def run_shard(params, acc):
    tier = params["tier"]
    level = params["level"]
    if params.get("discovery"):
        discovery_variants(level, acc)
        return
    if params.get("steady"):
        steady_runs(level, tier, acc)
        return
    b = bounds(tier)
    A = alphabet(tier)
    first = tuple(params["first"])
    seen = set()
    frontier = [(first,)]
    depth = 1
    states = 0
    reported = set()
    while frontier:
        nxt = []
        for hist in frontier:
            key = normalise(hist)
            if key in seen:
                continue
            seen.add(key)
            states += 1
            nops = sum(1 for e in key if e[0] == "op")
            if nops and key[-1][0] == "op":
                violations, nreq, outcomes = run_history(level, key)
                acc.count(evaluations=1, nontrivial=1 if (nops >= 2 or len(key) >= 2) else 0, transitions=nreq, traces=1)
                acc.outcome("/".join("%s" % (o[1] or "ok") for o in outcomes[-2:]))
                acc.sample({"level": level, "history": [list(e) for e in key], "outcomes": outcomes}, interesting=len(key) >= 3)
                for v in violations:
                    k = (v["kind"], v["facts"]["agent_rebooted_since_discovery"], v["facts"]["seconds_since_discovery"] > 150)
                    if k in reported:
                        acc.bump("violating_operations_not_listed", 1)
                        continue
                    reported.add(k)
                    v["case"] = {"level": level, "history": [list(e) for e in key]}
                    acc.violation(v)
            if len(hist) < b["depth"]:
                for ev in A:
                    nxt.append(hist + (tuple(ev),))
        frontier = nxt
        depth += 1
    acc.count(evaluations=0, states=states)
    acc.maxi("max_depth", b["depth"])


def replay(case):
    if "discovery_variant" in case:
        class A:
            def __init__(self):
                self.v = []
            def count(self, **k): pass
            def outcome(self, *a, **k): pass
            def violation(self, v): self.v.append(v)
        a = A()
        discovery_variants(case["level"], a)
        return [v for v in a.v if v["case"]["discovery_variant"] == case["discovery_variant"]]
    if "steady" in case:
        spacing, n = case["steady"]
        hist = tuple(x for _ in range(n) for x in (("op", "get"), ("advance", spacing)))[:-1]
        return run_history(case["level"], hist)[0]
    hist = tuple(tuple(e) for e in case["history"])
    return run_history(case["level"], hist)[0]


def meta(tier):
    b = bounds(tier)
    return {
        "level": "model_checking",
        "rule": "explicit-state search over histories (length <= %d) of %r on one client per security level %r; histories are merged on their normal form (adjacent clock advances add up); states = distinct normal forms, a transition = one request/response exchange; every history ending in an operation is replayed on a fresh real client against the reference agent on the shared virtual clock and all of its operations are judged; plus long steady runs (a get every s seconds, n times, for (s, n) in 'STEADY') and discovery-reply variants (matching / foreign message id, no bindings, empty engine id); non-trivial = history with at least two events"
        % (b["depth"], alphabet(tier), b["levels"]),
        "exhaustive": True,
        "bounds": b,
        "assumptions": ["one virtual clock drives time.time, time.monotonic, the event loop and the agent's snmpEngineTime", "the verdict is on the caller-visible outcome only: extrapolating a local clock or resynchronising transparently both satisfy it"],
    }
