"""
C08 - agent error-status always surfaces as the documented exception.

Full matrix: error-status x error-index x number of bindings in the error
response x operation (first request, and the continuation request of walk-type
operations) x protocol version.  The reference agent is scripted to answer the
k-th request with the chosen (status, index, bindings).

Oracle: the call raises the exception class the RFC 3416 status table names
(generic ErrorResponse carrying the raw status for undefined values), the
offending OID is the OID of binding `index` when 1 <= index <= n and empty
otherwise, and no value of that response is returned.  A noSuchName (2) answer
to a *continuation* request of a walk-type operation ends the walk silently
(documented SNMPv1 end-of-MIB convention).
"""

from .. import ops, world
from ..clock import CLOCK
from ..ref import agent as ragent
from ..ref import models

PROPERTY = "C08"

DB = {
    (1, 3, 1, 1, 1): ("int", 1),
    (1, 3, 1, 1, 2): ("int", 2),
    (1, 3, 1, 2, 1): ("str", b"a"),
    (1, 3, 1, 2, 2): ("str", b"b"),
    (1, 3, 2, 1, 0): ("c32", 9),
}

STATUSES = list(range(1, 19)) + [19, 20, 127, 128, 255, 2**31 - 1, -1, -128]
NS = [0, 1, 2, 3]

# (label, operation, which request gets the error: 1 or 2)
OPS = [
    ("get", ("get", (1, 3, 1, 1, 1)), 1),
    ("multiget", ("multiget", [(1, 3, 1, 1, 1), (1, 3, 1, 2, 1)]), 1),
    ("getnext", ("getnext", (1, 3, 1, 1, 1)), 1),
    ("multigetnext", ("multigetnext", [(1, 3, 1, 1, 1), (1, 3, 1, 2, 1)]), 1),
    ("set", ("set", (1, 3, 1, 2, 1), ("str", b"x")), 1),
    ("multiset", ("multiset", [((1, 3, 1, 2, 1), ("str", b"x")), ((1, 3, 1, 1, 1), ("int", 5))]), 1),
    ("bulkget", ("bulkget", [(1, 3, 2)], [(1, 3, 1, 1)], 2), 1),
    # the refused values are octet strings that are no text (a MAC address,
    # latin-1): the error response echoes them
    ("set-binary", ("set", (1, 3, 1, 2, 1), ("str", b"\x00\x1b\xff\xfe\x80")), 1),
    ("multiset-binary", ("multiset", [((1, 3, 1, 2, 1), ("str", b"caf\xe9")), ((1, 3, 1, 1, 1), ("opaque", b"\xff\xff"))]), 1),
    ("walk@1", ("walk", (1, 3, 1)), 1),
    ("walk@2", ("walk", (1, 3, 1)), 2),
    ("multiwalk@1", ("multiwalk", [(1, 3, 1, 1), (1, 3, 1, 2)]), 1),
    ("multiwalk@2", ("multiwalk", [(1, 3, 1, 1), (1, 3, 1, 2)]), 2),
    ("bulkwalk@1", ("bulkwalk", [(1, 3, 1)], 2), 1),
    ("bulkwalk@2", ("bulkwalk", [(1, 3, 1)], 2), 2),
    ("table@1", ("table", (1, 3, 1)), 1),
    ("table@2", ("table", (1, 3, 1)), 2),
    ("bulktable@1", ("bulktable", (1, 3), 2), 1),
    ("bulktable@2", ("bulktable", (1, 3), 2), 2),
]
NO_V1 = ("bulkget", "bulkwalk@1", "bulkwalk@2", "bulktable@1", "bulktable@2")
WALKS = ("walk", "multiwalk", "bulkwalk", "table", "bulktable")

# "+reboot": the client knows the engine, the agent has restarted since - the
# request is first refused with a notInTimeWindow report and it is its
# repetition (after the client has synchronised again) that gets the error
VERSIONS = {
    "quick": ["v2c", "v1", "v3:authNoPriv:md5", "v3:authPriv:sha1", "v3:authNoPriv:md5+reboot", "v3:authPriv:sha1+reboot"],
    "thorough": ["v2c", "v1", "v3:noAuthNoPriv:md5", "v3:authNoPriv:md5", "v3:authNoPriv:sha1", "v3:authPriv:md5", "v3:authPriv:sha1",
                 "v3:authNoPriv:md5+reboot", "v3:authNoPriv:sha1+reboot", "v3:authPriv:md5+reboot", "v3:authPriv:sha1+reboot"],
}
REBOOT_STATUSES = {"quick": [1, 2, 5, 6, 13, 18, 19, -1], "thorough": STATUSES}


def indexes(n):
    return [-1, 0] + list(range(1, n + 1)) + [n + 1, n + 5, 2**31 - 1]


def make_env(version):
    from .c04 import Env

    env = Env.__new__(Env)
    env.version = version
    env.db = dict(DB)
    if version == "v1":
        from puresnmp.credentials import V1

        env.agent = ragent.Agent(env.db)
        env.client, env.sender = world.make_client(V1("public"), env.agent.handle)
    elif version == "v2c":
        from puresnmp.credentials import V2C

        env.agent = ragent.Agent(env.db)
        env.client, env.sender = world.make_client(V2C("public"), env.agent.handle)
    else:
        _, level, method = version.replace("+reboot", "").split(":")
        env.client, env.sender, env.agent = world.make_v3(env.db, level, method)
    return env


def run_case(env, label, op, at, status, index, n):
    env.reset()
    CLOCK.reset()
    world.reset_plugins()
    state = {"k": 0}

    def hook(agent, req, resp):
        state["k"] += 1
        if state["k"] != at:
            return resp
        vbs = list(req["varbinds"])[:n]
        i = 0
        while len(vbs) < n:
            vbs.append(((1, 9, 9, i), ragent.NULL))
            i += 1
        state["bindings"] = vbs
        resp = dict(resp)
        resp["es"], resp["ei"], resp["varbinds"] = status, index, vbs
        return resp

    if env.version.endswith("+reboot"):
        warm, wexc = ops.run_op(env.client, ("get", (1, 3, 2, 1, 0)))
        if wexc is not None or warm != DB[(1, 3, 2, 1, 0)]:
            raise world.ScenarioUnavailable("warm-up exchange failed: %r %r" % (warm, wexc))
        env.agent.reboot()
        env.agent.log = []
        env.sender.calls = []
    env.agent.response_hook = hook
    env.sender.limit = 12
    try:
        result, exc = ops.run_op(env.client, op)
    except world.Horizon as hz:
        result, exc = None, hz
    finally:
        env.sender.limit = None
    return judge(env, label, op, at, status, index, n, result, exc, state)


def judge(env, label, op, at, status, index, n, result, exc, state):
    out = []
    ename = ops.exc_sig(exc)
    facts = {"op": label, "version": env.version, "status": status, "index": index, "bindings": n, "exception": ename,
             "index_in_range": 1 <= index <= n}

    def bad(kind, **detail):
        out.append({"kind": kind, "detail": {**facts, **detail, "message": str(exc)[:200] if exc is not None else None}, "facts": facts})

    world.v3_auth_facts(facts, exc, env.agent)
    if "bindings" not in state:
        bad("error-response-never-delivered", requests=len(env.agent.log))
        return out
    walk_continuation = op[0] in WALKS and at == 2
    if walk_continuation and status == 2:
        # documented: ends the walk silently; nothing of that response used
        if exc is not None:
            bad("nosuchname-continuation-raised")
        return out
    from puresnmp.exc import ErrorResponse

    if not isinstance(exc, ErrorResponse):
        bad("error-status-not-raised-as-ErrorResponse", result=result)
        return out
    want = models.STATUS_CLASS.get(status)
    if want is not None:
        if ename != want:
            bad("wrong-exception-class", expected=want)
    elif type(exc) is not ErrorResponse:
        bad("undefined-status-not-generic", expected="ErrorResponse")
    if getattr(exc, "error_status", None) != status:
        bad("wrong-error-status-attribute", got=getattr(exc, "error_status", None))
    off = world.norm_oid(exc.offending_oid)
    expected_off = state["bindings"][index - 1][0] if 1 <= index <= n else ()
    if off != expected_off:
        bad("wrong-offending-oid", got=off, expected=expected_off)
    if op[0] in WALKS and result:
        # items yielded before the error must come from earlier responses only
        if at == 1:
            bad("data-returned-from-error-response", result=result)
    return out


def shards(tier):
    out = []
    for version in VERSIONS[tier]:
        for label, op, at in OPS:
            if version == "v1" and label in NO_V1:
                continue
            out.append({"version": version, "label": label, "tier": tier})
    # the application's logging at DEBUG (messages and PDUs are pretty-printed
    # for the log before they are judged)
    for version in ("v2c", "v3:authPriv:sha1"):
        for label in ("get", "multiset", "walk@2", "bulkwalk@1"):
            out.append({"version": version, "label": label, "tier": tier, "lib_log": "DEBUG"})
    return out


def run_shard(params, acc):
    env = make_env(params["version"])
    label, op, at = next(o for o in OPS if o[0] == params["label"])
    for status in (REBOOT_STATUSES[params["tier"]] if params["version"].endswith("+reboot") else STATUSES):
        for n in NS:
            for index in indexes(n):
                violations = run_case(env, label, op, at, status, index, n)
                nreq = len(env.agent.log)
                acc.count(evaluations=1, nontrivial=1, states=1, transitions=nreq, traces=1)
                acc.outcome("ok" if not violations else violations[0]["kind"])
                acc.sample({"version": params["version"], "op": label, "status": status, "index": index, "bindings": n}, interesting=index > n)
                for v in violations:
                    v["case"] = {"version": params["version"], "label": label, "status": status, "index": index, "n": n}
                    acc.violation(v)


def replay(case):
    env = make_env(case["version"])
    label, op, at = next(o for o in OPS if o[0] == case["label"])
    return run_case(env, label, op, at, case["status"], case["index"], case["n"])


def meta(tier):
    return {
        "level": "model_checking",
        "rule": "full product: error-status %r x error-index {-1, 0, 1..n, n+1, n+5, 2^31-1} x n bindings in {0,1,2,3} x %d operation/request-position pairs x versions %r; every case is a run of the real client against the scripted reference agent; states = cases, transitions = request/response exchanges"
        % (STATUSES, len(OPS), VERSIONS[tier]),
        "exhaustive": True,
        "bounds": {"statuses": STATUSES, "bindings": NS, "versions": VERSIONS[tier]},
        "assumptions": ["status table written from RFC 3416 / puresnmp.exc documentation", "a noSuchName answer to a continuation request of a walk ends the walk silently (documented v1 convention)"],
    }
