"""
C01 - walk exactness.

Small-scope enumeration of initial states: every database over the universe
``scopes.U`` up to the size bound x every ordered list of 1..3 pairwise
disjoint roots x API.  The conformant reference agent is deterministic, so
there is one execution per configuration.  Oracle: subtree model, values,
ascending order for a single root, termination within the horizon, and
order-independence across permutations of the same root set (differential).
"""

from .. import ops, scopes, world
from ..ref import agent as ragent
from ..ref import models

PROPERTY = "C01"
N_SHARDS = 64


USM_INSTANCE = (1, 3, 6, 1, 6, 3, 15, 1, 1, 1, 0)  # usmStatsUnsupportedSecLevels.0, readable on every v3 agent
# ... followed (indices 16..20, so that recorded cases keep their meaning) by
# the other five usmStats counters - the OIDs Report PDUs carry; a conformant
# agent serves them in ordinary Responses too
U3 = sorted(scopes.U + [USM_INSTANCE]) + [(1, 3, 6, 1, 6, 3, 15, 1, 1, k, 0) for k in range(2, 7)]


def bounds(tier):
    if tier == "quick":
        return {"max_db": 3, "max_roots": 3, "py_max_db": 2, "v3": [("v3:authPriv:md5", 1)]}
    return {"max_db": 5, "max_roots": 3, "py_max_db": 2, "v3": [("v3:authPriv:md5", 2), ("v3:authNoPriv:sha1", 2), ("v3:noAuthNoPriv:md5", 1)]}


def shards(tier):
    b = bounds(tier)
    dbs = list(scopes.databases(b["max_db"]))
    # interleave sizes so that shards are balanced
    dbs.sort(key=lambda d: (hash(d) % 9973, d))
    out = [{"dbs": chunk, "tier": tier, "version": "v2c"} for chunk in scopes.chunks(dbs, N_SHARDS)]
    for version, max_db in b["v3"]:
        dbs3 = list(scopes.databases(max_db, U3))
        dbs3.sort(key=lambda d: (hash(d) % 9973, d))
        out += [{"dbs": chunk, "tier": tier, "version": version} for chunk in scopes.chunks(dbs3, 16)]
    # multi-octet sub-identifiers (numeric order and order of the encoded
    # octets differ)
    dbsm = list(scopes.databases(3 if tier == "quick" else 4, scopes.UM))
    out += [{"dbs": chunk, "tier": tier, "version": "v2c", "uni": "M"} for chunk in scopes.chunks(dbsm, 8)]
    return out


def creds():
    from puresnmp.credentials import V2C

    return V2C("public")


def walk_case(db_idx, roots, api, client=None, version="v2c", uni=None):
    """Run one walk; -> (result tuple, exception, n_requests, violations)"""
    if version == "v2c":
        db = scopes.db_from_indices(db_idx, scopes.UM) if uni == "M" else scopes.db_from_indices(db_idx)
        ag = ragent.Agent(db)
    else:
        from ..clock import CLOCK

        db = scopes.db_from_indices(db_idx, U3)
        _, level, method = version.split(":")
        user, _ = world.v3_user(level, method)
        ag = ragent.V3Agent(db, [user], clock=lambda: CLOCK.now)
    if client is None:
        if version == "v2c":
            client, sender = world.make_client(creds(), ag.handle)
        else:
            client, sender = world.make_client(world.v3_user(level, method)[1], ag.handle)
    else:
        sender = world.sender_of(client)
        sender.handle = ag.handle
        sender.calls = []
    sender.limit = len(db) + len(roots) + 3
    try:
        if api == "walk":
            result, exc = ops.run_op(client, ("walk", roots[0]))
        elif api == "multiwalk":
            result, exc = ops.run_op(client, ("multiwalk", list(roots)))
        elif api in ("pywalk", "pymultiwalk"):
            result, exc = py_walk(client, roots, api)
        else:
            raise world.HarnessError(api)
    except world.Horizon as hz:
        result, exc = None, hz
    nreq = len([e for e in ag.log if not e.get("discovery")])
    violations = judge(db, roots, api, result, exc, nreq)
    for v in violations:
        v["facts"]["version"] = version
        v["detail"]["version"] = version
    return result, exc, nreq, violations


def py_walk(client, roots, api):
    from puresnmp import PyWrapper

    from .. import drive

    w = PyWrapper(client)
    if api == "pywalk":
        gen = w.walk(".".join(map(str, roots[0])))
    else:
        gen = w.multiwalk([".".join(map(str, r)) for r in roots])
    items, exc = drive.drain(gen, ops.WALK_LIMIT)
    out = []
    for it in items:
        oid = tuple(int(x) for x in it.oid.split(".")) if isinstance(it.oid, str) else ("!", repr(it.oid))
        out.append((oid, ("py", it.value)))
    return tuple(out), exc


def py_expected(v):
    kind, val = v
    return ("py", val)


def judge(db, roots, api, result, exc, nreq):
    below, equal = models.subtree(db, roots)
    facts = {
        "db": sorted(db),
        "roots": list(roots),
        "api": api,
        "roots_ascending": list(roots) == sorted(roots),
        "expected": sorted(below),
        "requests": nreq,
    }
    out = []

    def bad(kind, **detail):
        out.append({"kind": kind, "detail": {**facts, **detail}, "facts": facts})

    if exc is not None:
        bad("walk-raised", exception=type(exc).__name__, message=str(exc)[:200])
        return out
    got = [o for o, _ in result]
    if len(set(got)) != len(got):
        bad("instance-yielded-twice", got=got)
    gs = set(got)
    if below - gs:
        bad("instances-missing", missing=sorted(below - gs), got=got)
    if gs - below - equal:
        bad("foreign-instance-yielded", foreign=sorted(gs - below - equal), got=got)
    for o, v in result:
        if o in db:
            exp = py_expected(db[o]) if api.startswith("py") else db[o]
            if v != exp:
                bad("wrong-value", oid=o, got=v, expected=exp)
                break
    if len(roots) == 1 and got != sorted(got):
        bad("not-ascending", got=got)
    return out


def run_shard(params, acc):
    tier = params["tier"]
    b = bounds(tier)
    lists = scopes.root_lists(b["max_roots"])
    version = params.get("version", "v2c")
    uni = params.get("uni")
    if version == "v2c":
        client, _ = world.make_client(creds(), lambda p: b"")
        universe = scopes.U
        if uni == "M":
            universe = scopes.UM
            lists = scopes.root_lists(3, scopes.ROOTS_M)
    else:
        from ..clock import CLOCK

        CLOCK.reset()
        world.reset_plugins()
        _, level, method = version.split(":")
        client, _ = world.make_client(world.v3_user(level, method)[1], lambda p: b"")
        universe = U3
        lists = lists + [((1, 3, 6, 1, 6, 3, 15),), ((1, 3, 3), (1, 3, 6, 1, 6, 3, 15))]
    for db_idx in params["dbs"]:
        db_idx = tuple(db_idx)
        by_set = {}
        for roots in lists:
            apis = ["multiwalk"]
            if len(roots) == 1:
                apis.append("walk")
            if len(db_idx) <= b["py_max_db"]:
                apis.append("pymultiwalk")
                if len(roots) == 1:
                    apis.append("pywalk")
            for api in apis:
                result, exc, nreq, violations = walk_case(db_idx, roots, api, client, version, uni)
                nontrivial = 1 if (nreq >= 2 and result) else 0
                acc.count(evaluations=1, nontrivial=nontrivial, states=nreq + 1, transitions=nreq, traces=1)
                acc.outcome("ok" if not violations else violations[0]["kind"])
                if nontrivial:
                    acc.sample(
                        {"version": version, "db": [universe[i] for i in db_idx], "roots": roots, "api": api, "requests": nreq, "yielded": [o for o, _ in result]},
                        interesting=len(roots) > 1 and nreq > 2,
                    )
                for v in violations:
                    v["case"] = {"db": list(db_idx), "roots": [list(r) for r in roots], "api": api, "version": version, "uni": uni}
                    acc.violation(v)
                if api == "multiwalk" and exc is None and result is not None:
                    key = frozenset(roots)
                    got = frozenset(o for o, _ in result)
                    if key in by_set and by_set[key][0] != got:
                        other = by_set[key]
                        facts = {"db": sorted(scopes.db_from_indices(db_idx, universe)), "roots": list(roots), "other_roots": list(other[1]),
                                 "roots_ascending": list(roots) == sorted(roots) and list(other[1]) == sorted(other[1])}
                        acc.violation(
                            {
                                "kind": "order-dependent",
                                "detail": {**facts, "got": sorted(got), "other_got": sorted(other[0])},
                                "facts": facts,
                                "case": {"db": list(db_idx), "roots": [list(r) for r in roots], "api": api, "version": version, "uni": uni, "other_roots": [list(r) for r in other[1]]},
                            }
                        )
                    by_set.setdefault(key, (got, roots))


def replay(case):
    db_idx = tuple(case["db"])
    roots = tuple(tuple(r) for r in case["roots"])
    version = case.get("version", "v2c")
    if version != "v2c":
        from ..clock import CLOCK

        CLOCK.reset()
        world.reset_plugins()
    uni = case.get("uni")
    result, exc, nreq, violations = walk_case(db_idx, roots, case["api"], None, version, uni)
    if "other_roots" in case:
        other = tuple(tuple(r) for r in case["other_roots"])
        r2, e2, _, _ = walk_case(db_idx, other, case["api"], None, version, uni)
        if exc is None and e2 is None and frozenset(o for o, _ in result) != frozenset(o for o, _ in r2):
            violations.append({"kind": "order-dependent", "detail": {"got": result, "other_got": r2}})
    return violations


def meta(tier):
    b = bounds(tier)
    return {
        "level": "model_checking",
        "rule": "one execution per configuration (database subset of the 15-instance universe with |DB| <= %d) x (every ordered list of 1..3 pairwise disjoint roots from an 9-root menu) x API (multiwalk; walk for single roots; PyWrapper variants for |DB| <= %d); v2c, and SNMPv3 %r on the universe extended by the six usmStats counter instances; a second universe of 10 instances / 4 roots with sub-identifiers at the base-128 boundaries (127|128, 16383|16384, 300 vs 16385); states = (configuration, exchange index) pairs, transitions = request/response exchanges; non-trivial = at least two requests and at least one instance yielded"
        % (b["max_db"], b["py_max_db"], b["v3"]),
        "exhaustive": True,
        "bounds": b,
        "assumptions": [
            "conformant agent = reference agent (sorted map, RFC 3416 GETNEXT)",
            "universe realises every order/prefix relation between roots and instances; larger OIDs/databases not covered",
        ],
    }
