"""
C09 - USM: no unauthenticated, altered or downgraded response is ever accepted.

Exhaustive fault enumeration on authentic traffic.  A man-in-the-middle around
the reference SNMPv3 agent rewrites the response of one exchange of an
operation:

 (a) every single-bit flip at every position of the authentic response;
 (b) every pair of flips with one flip in the msgFlags octet (and, thorough,
     all pairs whatsoever on the shortest seed);
 (c) structural forgeries with attacker-chosen content: msgFlags not matching
     the credentials, empty / short / zero / foreign digest, foreign password,
     foreign user, foreign engine id, non-localised key, unencrypted scoped PDU
     under privacy credentials, unauthenticated Report PDUs with usmStats OIDs
     and with ordinary bindings answering the request.

Oracle: the call ends with an exception, or with exactly the result the
authentic response gives.  Every case runs under a CPU-time budget.
"""

from .. import budget, ops, world
from ..clock import CLOCK
from ..ref import agent as ragent
from ..ref import ber, snmp, usm

PROPERTY = "C09"

DB = {
    (1, 3, 6, 1, 2, 1, 1, 1, 0): ("str", b"authentic system description"),
    (1, 3, 6, 1, 2, 1, 1, 3, 0): ("tt", 424242),
    (1, 3, 6, 1, 2, 1, 1, 5, 0): ("str", b"host"),
    (1, 3, 6, 1, 2, 1, 2, 1, 0): ("int", 3),
    (1, 3, 6, 1, 2, 1, 4, 20, 0): ("str", bytes(16)),  # e.g. an unset IPv6 address
}
FORGED_VALUE = ("str", b"FORGED by the attacker")
OTHER_ENGINE = b"\x80\x00\x1f\x88\x04other!"

# (label, operation, index of the data exchange whose response is rewritten)
SEED_OPS = [
    ("get", ("get", (1, 3, 6, 1, 2, 1, 1, 1, 0)), 1),
    ("getnext", ("getnext", (1, 3, 6, 1, 2, 1, 1, 3, 0)), 1),
    ("bulkget", ("bulkget", [(1, 3, 6, 1, 2, 1, 2)], [(1, 3, 6, 1, 2, 1, 1)], 2), 1),
    ("set", ("set", (1, 3, 6, 1, 2, 1, 1, 5, 0), ("str", b"newname")), 1),
    ("walk@2", ("walk", (1, 3, 6, 1, 2, 1, 1)), 2),
    ("multiget", ("multiget", [(1, 3, 6, 1, 2, 1, 1, 5, 0), (1, 3, 6, 1, 2, 1, 2, 1, 0)]), 1),
    ("get-zeros", ("get", (1, 3, 6, 1, 2, 1, 4, 20, 0)), 1),
]
LEVELS = [("authNoPriv", "md5"), ("authPriv", "md5"), ("authNoPriv", "sha1"), ("authPriv", "sha1")]
BUDGET = 0.5


def seeds(tier):
    out = []
    for label, op, at in SEED_OPS:
        for level, method in LEVELS:
            if tier == "quick" and not (
                (label in ("get", "set"))
                or (label == "get-zeros" and method == "md5")
                or (label == "walk@2" and (level, method) == ("authPriv", "sha1"))
                or (label == "bulkget" and (level, method) == ("authNoPriv", "md5"))
            ):
                continue
            out.append({"op": label, "level": level, "method": method})
    return out


class Mitm:
    """client + reference agent + rewriting hook for one seed"""

    def __init__(self, seed):
        self.seed = seed
        self.label, self.op, self.at = next(o for o in SEED_OPS if o[0] == seed["op"])
        self.fresh()

    def fresh(self):
        CLOCK.reset()
        world.reset_plugins()
        self.client, self.sender, self.agent = world.make_v3(DB, self.seed["level"], self.seed["method"])
        self.user = list(self.agent.users.values())[0]
        # a second client of the same process and user, talking to another
        # device (engine): what it learns must not help a forger here
        other_user, other_creds = world.v3_user(self.seed["level"], self.seed["method"])
        self.other_agent = ragent.V3Agent(DB, [other_user], engine_id=OTHER_ENGINE, clock=lambda: CLOCK.now)
        self.other_client, _ = world.make_client(other_creds, self.other_agent.handle)
        ops.run_op(self.other_client, ("get", (1, 3, 6, 1, 2, 1, 1, 5, 0)))
        self.rewrite = None
        self.k = 0
        self.last = None
        self.agent.bytes_hook = self.hook

    def hook(self, agent, req, resp):
        entry = agent.log[-1]
        if entry.get("discovery"):
            return resp
        self.k += 1
        if self.k != self.at or self.rewrite is None:
            return resp
        self.last = {"request": req, "authentic": resp, "entry": entry}
        out = self.rewrite(req, resp, entry)
        self.last["delivered"] = out
        return out

    def run(self, rewrite):
        """one operation with the given rewriting; -> (result, exc, budget)"""
        self.agent.db = dict(DB)
        self.agent._resort()
        self.agent.log = []
        self.k = 0
        self.rewrite = rewrite
        self.sender.calls = []
        self.sender.limit = 10

        def call():
            try:
                return ops.run_op(self.client, self.op)
            except world.Horizon as hz:
                return None, hz

        value, over = budget.run(call, BUDGET)
        if over is None and isinstance(value[1], budget.BudgetExceeded):
            over = value[1]  # swallowed by an async generator's cleanup
        if over is not None:
            self.delivered_when_over = self.last.get("delivered") if self.last else None
            self.fresh()  # state of the interrupted client is unknown
            return None, None, over
        return value[0], value[1], None


def plaintext_of(m, datagram):
    """scoped-PDU bytes of a v3 datagram as the legitimate receiver would see
    them (decrypting with the user's key) - for diagnosis only"""
    try:
        msg = snmp.dec_message(datagram)
    except ber.BerError as exc:
        return None, str(exc)
    if "encrypted" in msg and m.user.priv:
        plug = usm.priv_plugin(m.user.priv[0])
        sp = msg["usm"]
        try:
            return bytes(plug.decrypt_data(m.user.priv_key(sp["engine_id"]), sp["engine_id"], sp["boots"], sp["time"], sp["priv"], msg["encrypted"])), None
        except Exception as exc:  # noqa
            return None, repr(exc)
    return None, None


def indefinite_length_fact(m, datagram):
    """does a BER header of the delivered datagram (or of its decrypted
    payload) carry the indefinite-length octet 0x80? (reference view)"""
    try:
        snmp.dec_message(datagram)
    except ber.BerError as exc:
        if "indefinite length" in str(exc):
            return True
    clear, _ = plaintext_of(m, datagram)
    if clear is not None:
        return has_indefinite_header(clear)
    return has_indefinite_header(datagram)


def has_indefinite_header(data):
    """walk TLV headers leniently; True if a length octet 0x80 is met"""
    def walk(pos, end, depth):
        while pos + 2 <= end and depth < 40:
            tag, l0 = data[pos], data[pos + 1]
            if l0 == 0x80:
                return True
            if l0 < 0x80:
                hl, ln = 2, l0
            else:
                k = l0 & 0x7F
                if k > 4 or pos + 2 + k > end:
                    return False
                hl, ln = 2 + k, int.from_bytes(data[pos + 2 : pos + 2 + k], "big")
            if tag & 0x20 or tag == 0x04:
                if walk(pos + hl, min(end, pos + hl + ln), depth + 1):
                    return True
            pos += hl + ln
        return False

    return walk(0, len(data), 0)


# ---------------------------------------------------------------------------
# structural forgeries
# ---------------------------------------------------------------------------


def forgeries(m):
    """-> list of (name, rewrite function)"""
    user = m.user
    method = user.auth[0]
    eid = m.agent.engine_id
    out = []

    def build(req_entry, flags, pdu_tag=snmp.PDU_RESPONSE, auth=b"", user_name=None, engine=None, varbinds=None, sign_with=None, encrypt_with=None, request_id=None, es=0, ei=0):
        msg = req_entry["msg"]
        rid = req_entry["pdu"]["request_id"] if request_id is None else request_id
        vbs = varbinds if varbinds is not None else [(o, FORGED_VALUE) for o, _ in req_entry["pdu"]["varbinds"]]
        pdu = snmp.pdu_node(pdu_tag, rid, es, ei, vbs)
        scoped = snmp.scoped_pdu_node(msg["scoped"]["context_engine_id"], msg["scoped"]["context_name"], pdu)
        payload = scoped
        salt = b""
        if encrypt_with is not None:
            plug = usm.priv_plugin(user.priv[0])
            ct, salt = plug.encrypt_data(encrypt_with, engine or eid, m.agent.boots, m.agent.engine_time, scoped.encode())
            payload = ber.n_str(bytes(ct))
        sp = snmp.usm_params_node(engine or eid, m.agent.boots, m.agent.engine_time, user.name if user_name is None else user_name, auth, bytes(salt))
        data = snmp.v3_msg_node(msg["msg_id"], 65507, flags, 3, sp.encode(), payload).encode()
        if sign_with is not None:
            try:
                data = usm.sign(method, sign_with, data)
            except ber.BerError:
                # a message the reference decoder itself refuses (payload kind
                # contradicting the flags): sign it by position
                root = ber.parse_all(data)
                spn = root.children[2]
                inner = ber.parse_all(spn.content)
                off = spn.cstart + inner.children[4].cstart
                data = data[:off] + usm.hmac96(method, sign_with, data) + data[off + 12 :]
        return data

    Z12 = b"\x00" * 12
    other_pw_key = usm.localise(method, b"another-password", eid)
    other_eid = OTHER_ENGINE
    priv_key = user.priv_key(eid) if user.priv else None

    def F(name, **kw):
        out.append((name, lambda req, resp, entry, kw=kw: build(entry, **kw)))

    F("plaintext-flags0-no-digest", flags=0)
    F("plaintext-flags0-zero-digest", flags=0, auth=Z12)
    F("flags1-empty-digest", flags=1, auth=b"")
    F("flags1-zero-digest", flags=1, auth=Z12)
    for n in (1, 4, 11, 13):
        out.append(("flags1-digest-truncated-to-%d" % n, lambda req, resp, entry, n=n: _short_digest(build(entry, flags=1, auth=Z12, sign_with=user.auth_key(eid)), n)))
    out.append(("flags1-digest-of-the-authentic-message", lambda req, resp, entry: build(entry, flags=1, auth=snmp.dec_message(resp)["usm"]["auth"] if len(snmp.dec_message(resp)["usm"]["auth"]) == 12 else Z12)))
    F("signed-with-another-password", flags=1, auth=Z12, sign_with=other_pw_key)
    F("foreign-user-name-own-valid-digest", flags=1, auth=Z12, user_name=b"mallory", sign_with=usm.localise(method, b"mallory-password", eid))
    F("foreign-user-name-no-auth", flags=0, user_name=b"mallory")
    F("foreign-engine-id-key-localised-there", flags=1, auth=Z12, engine=other_eid, sign_with=usm.localise(method, user.auth[1], other_eid))
    F("signed-with-non-localised-key", flags=1, auth=Z12, sign_with=usm.password_to_ku(method, user.auth[1]))
    F("signed-with-password-as-key", flags=1, auth=Z12, sign_with=user.auth[1])
    if user.priv:
        F("priv-user-plaintext-flags0", flags=0)
        F("priv-user-plaintext-flags1-zero-digest", flags=1, auth=Z12)
        F("priv-user-plaintext-flags1-foreign-key", flags=1, auth=Z12, sign_with=other_pw_key)
        F("priv-user-flags3-encrypted-with-foreign-key-zero-digest", flags=3, auth=Z12, encrypt_with=usm.localise(method, b"another-priv-password", eid))
        F("priv-user-flags2-encrypted-own-guess", flags=2, encrypt_with=usm.localise(method, b"another-priv-password", eid))
        # flags still say "encrypted", the payload is a plaintext scoped PDU:
        # without a digest, and signed by someone who holds the
        # authentication key but not the privacy key
        F("priv-user-flags3-plaintext-scoped-pdu-zero-digest", flags=3, auth=Z12)
        F("priv-user-flags3-plaintext-scoped-pdu-valid-digest", flags=3, auth=Z12, sign_with=user.auth_key(eid))
    # "privacy without authentication" is not a security level at all
    F("flags2-plaintext-no-digest", flags=2)
    F("flags6-plaintext-no-digest", flags=6)
    F("flags2-plaintext-zero-digest", flags=2, auth=Z12)
    out.append(("zero-run-overwritten-with-the-messages-own-digest", _digest_into_zero_run))
    # unauthenticated Reports
    F("report-usmStatsWrongDigests", flags=0, pdu_tag=snmp.PDU_REPORT, varbinds=[(usm.USM_STATS["wrongDigests"], ("c32", 1))])
    F("report-usmStatsNotInTimeWindows", flags=0, pdu_tag=snmp.PDU_REPORT, varbinds=[(usm.USM_STATS["notInTimeWindows"], ("c32", 1))])
    F("report-with-ordinary-bindings", flags=0, pdu_tag=snmp.PDU_REPORT)
    F("report-with-usmStats-and-ordinary-bindings", flags=0, pdu_tag=snmp.PDU_REPORT, varbinds=None)
    F("report-unknown-oid", flags=0, pdu_tag=snmp.PDU_REPORT, varbinds=[((1, 3, 6, 1, 6, 3, 15, 1, 1, 9, 0), ("c32", 1))])
    F("report-empty", flags=0, pdu_tag=snmp.PDU_REPORT, varbinds=[])
    # error responses and reports carrying an error-status, unauthenticated:
    # inside a walk noSuchName would end the walk silently
    for status in (2, 5, 1):
        F("report-unauthenticated-error-status-%d" % status, flags=0, pdu_tag=snmp.PDU_REPORT, es=status, ei=1)
        F("response-unauthenticated-error-status-%d" % status, flags=0, es=status, ei=1)
        F("response-zero-digest-error-status-%d" % status, flags=1, auth=Z12, es=status, ei=1)
        # ... as agents send reports before they know the user (empty msgUserName)
        F("report-unauthenticated-empty-user-error-status-%d" % status, flags=0, pdu_tag=snmp.PDU_REPORT, es=status, ei=1, user_name=b"")
        F("response-unauthenticated-empty-user-error-status-%d" % status, flags=0, es=status, ei=1, user_name=b"")
        F("report-unauthenticated-empty-user-usmStats-error-status-%d" % status, flags=0, pdu_tag=snmp.PDU_REPORT, es=status, ei=1, user_name=b"", varbinds=[(usm.USM_STATS["unknownUserNames"], ("c32", 1))])
    # the authentic message with only its flags octet rewritten
    for fl in (0, 1, 2, 3, 4, 5, 7):
        out.append(("authentic-with-flags-%d" % fl, lambda req, resp, entry, fl=fl: _set_flags(resp, fl)))
    out.append(("authentic-digest-zeroed", lambda req, resp, entry: _zero_digest(resp)))
    out.append(("authentic-replayed-previous-response", None))
    return [f for f in out if f[1] is not None]


def _digest_into_zero_run(req, resp, entry):
    """an authentic message whose payload carries >= 12 zero octets: the
    attacker overwrites 12 of them with the digest found in the same message"""
    msg = snmp.dec_message(resp)
    digest = msg["usm"]["auth"]
    off = usm.digest_offset(msg)
    if len(digest) != 12:
        return resp[:-1] + bytes([resp[-1] ^ 1])
    pos = resp.find(b"\x00" * 12, off + 12)
    if pos < 0:
        return resp[:-1] + bytes([resp[-1] ^ 1])  # no such run: plain corruption
    return resp[:pos] + digest + resp[pos + 12 :]


def _flags_offset(data):
    root = ber.parse_all(data)
    return root.children[1].children[2].cstart


def _set_flags(data, fl):
    off = _flags_offset(data)
    return data[:off] + bytes([fl]) + data[off + 1 :]


def _zero_digest(data):
    msg = snmp.dec_message(data)
    off = usm.digest_offset(msg)
    n = len(msg["usm"]["auth"])
    return data[:off] + b"\x00" * n + data[off + n :]


def _short_digest(data, n):
    """re-encode the message with the digest cut (or padded) to n octets"""
    msg = snmp.dec_message(data)
    sp = msg["usm"]
    d = (sp["auth"] + b"\x00" * 12)[:n]
    spn = snmp.usm_params_node(sp["engine_id"], sp["boots"], sp["time"], sp["user"], d, sp["priv"])
    root = msg["root"]
    payload = root.children[3]
    node = ber.N(0x30, children=[ber.n_int(3), _raw(root.children[1]), ber.n_str(spn.encode()), _raw(payload)])
    return node.encode()


class _Raw(ber.N):
    def __init__(self, raw):
        self.raw = raw
        self.children = None
        self.content = None
        self.tag = raw[0]
        self.form = 0

    def encode(self):
        return self.raw

    def walk(self):
        yield self


def _raw(tlv):
    return _Raw(tlv.raw)


# ---------------------------------------------------------------------------


def judge(m, name, result, exc, over, authentic, acc_facts):
    facts = {"seed": m.seed, "mutation": name, "exception": ops.exc_sig(exc) if over is None else "BudgetExceeded"}
    facts.update(acc_facts)
    out = []
    if over is not None:
        delivered = m_last_delivered(m)
        facts["indefinite_length_octet"] = indefinite_length_fact(m, delivered) if delivered else None
        facts["frames"] = over.frames[:6]
        facts["in_x690"] = any("x690/" in f for f in over.frames[:3])
        out.append({"kind": "processing-exceeds-cpu-budget", "detail": dict(facts), "facts": facts})
        return out
    if type(exc).__name__ == "NeverCompletes":
        out.append({"kind": "call-never-completes", "detail": dict(facts), "facts": facts})
    if exc is None and result != authentic:
        out.append({"kind": "forged-or-altered-content-accepted", "detail": {**facts, "result": result, "authentic_result": authentic}, "facts": facts})
    return out


def m_last_delivered(m):
    return getattr(m, "delivered_when_over", None)


def shards(tier):
    out = []
    for s in seeds(tier):
        out.append({"tier": tier, "seed": s, "family": "bits", "part": 0, "of": 1})
        out.append({"tier": tier, "seed": s, "family": "forgeries"})
        # the same menu with the application's logging at DEBUG (messages are
        # pretty-printed for the log before / while they are verified)
        out.append({"tier": tier, "seed": s, "family": "forgeries", "lib_log": "DEBUG"})
        if tier == "thorough" or (s["op"] == "get" and (s["level"], s["method"]) in (("authNoPriv", "md5"), ("authPriv", "sha1"))):
            for fbit in range(8):
                out.append({"tier": tier, "seed": s, "family": "flagpairs", "fbit": fbit})
    if tier == "thorough":
        s = {"op": "get", "level": "authNoPriv", "method": "md5"}
        for i in range(32):
            out.append({"tier": tier, "seed": s, "family": "allpairs", "part": i, "of": 32})
    return out


def authentic_run(m):
    result, exc, over = m.run(lambda req, resp, entry: resp)
    if exc is not None or over is not None or m.last is None:
        raise world.ScenarioUnavailable("authentic exchange of seed %r failed: %r %r" % (m.seed, exc, over))
    return result, m.last["authentic"]


def run_shard(params, acc):
    m = Mitm(params["seed"])
    authentic, auth_bytes = authentic_run(m)
    nbits = len(auth_bytes) * 8
    fam = params["family"]
    flags_off = _flags_offset(auth_bytes)

    def flip(data, *bits):
        b = bytearray(data)
        for bit in bits:
            b[bit // 8] ^= 0x80 >> (bit % 8)
        return bytes(b)

    def one(name, rewrite, case):
        result, exc, over = m.run(rewrite)
        violations = judge(m, name, result, exc, over, authentic, {})
        accepted = exc is None and over is None
        acc.count(evaluations=1, nontrivial=1)
        acc.outcome("accepted-with-authentic-result" if accepted and not violations else ("exception:" + ops.exc_sig(exc) if exc is not None else ("budget" if over else violations[0]["kind"])))
        for v in violations:
            v["case"] = case
            acc.violation(v)
        return accepted

    if fam == "bits":
        for bit in range(nbits):
            one("bit %d" % bit, lambda req, resp, entry, bit=bit: flip(resp, bit), {"seed": params["seed"], "family": "bits", "bits": [bit]})
        acc.sample({"seed": params["seed"], "family": "every single-bit flip", "response_octets": len(auth_bytes), "cases": nbits})
    elif fam == "flagpairs":
        for fbit in [params["fbit"]]:
            for bit in range(nbits):
                fb = flags_off * 8 + fbit
                if bit == fb:
                    continue
                one("bits %d+%d" % (fb, bit), lambda req, resp, entry, a=fb, b=bit: flip(resp, a, b), {"seed": params["seed"], "family": "flagpairs", "bits": [fb, bit]})
        acc.sample({"seed": params["seed"], "family": "every pair of flips with one flip in the msgFlags octet", "flag_bit": params["fbit"], "cases": nbits - 1})
    elif fam == "allpairs":
        n = 0
        for a in range(params["part"], nbits, params["of"]):
            for b in range(a + 1, nbits):
                one("bits %d+%d" % (a, b), lambda req, resp, entry, a=a, b=b: flip(resp, a, b), {"seed": params["seed"], "family": "allpairs", "bits": [a, b]})
                n += 1
        acc.sample({"seed": params["seed"], "family": "all pairs of bit flips", "cases": n})
    elif fam == "forgeries":
        for name, rewrite in forgeries(m):
            one(name, rewrite, {"seed": params["seed"], "family": "forgeries", "name": name})
        acc.sample({"seed": params["seed"], "family": "structural forgeries", "names": [n for n, _ in forgeries(m)]})


def replay(case):
    m = Mitm(case["seed"])
    authentic, auth_bytes = authentic_run(m)
    if case["family"] == "forgeries":
        rewrite = dict(forgeries(m))[case["name"]]
        name = case["name"]
    else:
        bits = case["bits"]

        def rewrite(req, resp, entry):
            b = bytearray(resp)
            for bit in bits:
                b[bit // 8] ^= 0x80 >> (bit % 8)
            return bytes(b)

        name = "bits %r" % bits
    result, exc, over = m.run(rewrite)
    return judge(m, name, result, exc, over, authentic, {})


def meta(tier):
    return {
        "level": "fault_enumeration",
        "rule": "seeds = operations %r x (level, hash) %s; per seed: every single-bit flip of the authentic response of one exchange, every pair of flips with one flip in the msgFlags octet, %d structural forgeries with attacker-chosen content%s; each case is one operation of the real client against the rewriting man-in-the-middle under a %.1f s CPU budget; every case is distinct and non-trivial (the delivered datagram differs from the authentic one)"
        % ([o[0] for o in SEED_OPS], "subset" if tier == "quick" else "all four", 50, "; all pairs of flips on the shortest seed" if tier == "thorough" else "", BUDGET),
        "exhaustive": True,
        "bounds": {"seeds": seeds(tier)},
        "assumptions": ["flips that leave the result unchanged satisfy the statement", "multi-bit corruptions beyond the listed families are not covered"],
    }
