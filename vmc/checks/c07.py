"""
C07 - only the response to the request actually sent is ever returned.

Choice tree: after every read of the clock by the library the explorer decides
whether the clock advances by one second (free choice, unbounded); for every
response the agent chooses how it treats the request-id (echo / +1 / -1 / 0 /
previous request's id / foreign), the community and the version field.
Oracle: a result is returned iff the response's request-id equals the id the
reference decoder finds in the datagram that was sent (and community/version
match); otherwise InvalidResponseId (SnmpError for community/version).
"""

from .. import explore, ops, world
from ..clock import CLOCK
from ..ref import agent as ragent
from ..ref import snmp

PROPERTY = "C07"

DB = {
    (1, 3, 1, 1): ("int", 1),
    (1, 3, 1, 2): ("str", b"a"),
    (1, 3, 2, 1): ("int", 2),
}

OPS = {
    "get": ("get", (1, 3, 1, 1)),
    "multiget": ("multiget", [(1, 3, 1, 1), (1, 3, 2, 1)]),
    "getnext": ("getnext", (1, 3, 1, 1)),
    "multigetnext": ("multigetnext", [(1, 3, 1, 1), (1, 3, 1, 2)]),
    "set": ("set", (1, 3, 1, 2), ("str", b"x")),
    "multiset": ("multiset", [((1, 3, 1, 2), ("str", b"x")), ((1, 3, 2, 1), ("int", 5))]),
    "bulkget": ("bulkget", [(1, 3, 1)], [(1, 3, 1, 1)], 2),
    "walk": ("walk", (1, 3, 1)),
    "walk-warn": ("walk", (1, 3, 1), "warn"),
    "multiwalk": ("multiwalk", [(1, 3, 1), (1, 3, 2)]),
    "multiwalk-warn": ("multiwalk", [(1, 3, 1), (1, 3, 2)], "warn"),
    "bulkwalk": ("bulkwalk", [(1, 3, 1)], 1),
    "table": ("table", (1, 3)),
    "bulktable": ("bulktable", (1, 3), 2),
}
NO_V1 = ("bulkget", "bulkwalk", "bulktable")

PERTURB = ("echo", "id+1", "id-1", "id0", "previd", "foreign", "id+1/genErr", "id+1/noSuchName", "id+2^32", "id-2^32", "id+2^32/noSuchName",
           # error responses naming no binding (error-index 0, the usual shape
           # of tooBig / genErr) or one beyond the list, for another request
           "id+1/tooBig-index0", "id-1/genErr-index9", "foreign/noSuchName-index0",
           # error-status without a class of its own, for another request
           "id+1/status19", "id+2^31/status1000", "id+2^31", "id0/noSuchName", "id0/tooBig-index0", "wrongcomm", "emptycomm", "otherversion", "wrongcomm/noSuchName", "prefixcomm", "longercomm")
V3_PERTURB = PERTURB[:19]


def creds(version):
    from puresnmp.credentials import V1, V2C

    return V1("public") if version == "v1" else V2C("public")


DISCO_PERTURB = ("echo", "msgid+1", "msgid-1", "msgid-foreign", "msgid+2^31", "msgid-2^31", "msgid+2^32")


def make_run(opname, version):
    op = OPS[opname]
    v3 = version.startswith("v3")
    reboot = version.endswith("+reboot")
    version = version.replace("+reboot", "")
    # "@2038" / "@2106": wall clock beyond 2^31 / 2^32 s (the request id is
    # derived from it and no longer fits 31 / 32 bits)
    epoch = None
    if "@" in version:
        version, year = version.split("@")
        epoch = {"2038": 2.0**31 + 1000, "2106": 2.0**32 + 1000}[year]

    def run(ctx):
        if epoch is None:
            CLOCK.reset()
        else:
            CLOCK.reset(epoch)
        world.reset_plugins()
        if v3:
            _, level, method = version.split(":")
            client, sender, ag = world.make_v3(DB, level, method)
        else:
            ag = ragent.Agent(DB)
        exchanges = []
        disco = []

        def mhook(agent, req, fields):
            # only the discovery reply's message id is perturbed
            if req["usm"]["engine_id"] != b"":
                return fields
            k = ctx.choose(len(DISCO_PERTURB), "disco")
            kind = DISCO_PERTURB[k]
            fields = dict(fields)
            if kind == "msgid+1":
                fields["msg_id"] += 1
            elif kind == "msgid-1":
                fields["msg_id"] -= 1
            elif kind == "msgid-foreign":
                fields["msg_id"] = 424242
            elif kind == "msgid+2^31":
                fields["msg_id"] += 2**31
            elif kind == "msgid-2^31":
                fields["msg_id"] -= 2**31
            elif kind == "msgid+2^32":
                fields["msg_id"] += 2**32
            disco.append({"sent_msg_id": req["msg_id"], "resp_msg_id": fields["msg_id"], "kind": kind})
            return fields

        def on_read(clk):
            if ctx.choose(2, "clock", free=True):
                clk.advance(1.0)

        def hook(agent, req, resp):
            sent_id = req["request_id"]
            menu = V3_PERTURB if v3 else PERTURB
            k = ctx.choose(len(menu), "resp")
            kind = menu[k]
            resp = dict(resp)
            if kind == "id+1":
                resp["request_id"] = sent_id + 1
            elif kind == "id-1":
                resp["request_id"] = sent_id - 1
            elif kind == "id0":
                resp["request_id"] = 0
            elif kind == "previd":
                resp["request_id"] = exchanges[-1]["sent_id"] if exchanges else sent_id + 7
            elif kind == "foreign":
                resp["request_id"] = 424242
            elif kind == "id+2^32":
                resp["request_id"] = sent_id + 2**32
            elif kind == "id-2^32":
                resp["request_id"] = sent_id - 2**32
            elif kind == "id+2^32/noSuchName":
                resp["request_id"] = sent_id + 2**32
                resp["es"], resp["ei"] = 2, 1
                resp["varbinds"] = list(req["varbinds"])
            elif kind == "id+1/tooBig-index0":
                resp["request_id"] = sent_id + 1
                resp["es"], resp["ei"] = 1, 0
                resp["varbinds"] = []
            elif kind == "id-1/genErr-index9":
                resp["request_id"] = sent_id - 1
                resp["es"], resp["ei"] = 5, 9
                resp["varbinds"] = list(req["varbinds"])
            elif kind == "foreign/noSuchName-index0":
                resp["request_id"] = 424242
                resp["es"], resp["ei"] = 2, 0
                resp["varbinds"] = list(req["varbinds"])
            elif kind == "id+1/status19":
                resp["request_id"] = sent_id + 1
                resp["es"], resp["ei"] = 19, 1
                resp["varbinds"] = list(req["varbinds"])
            elif kind == "id+2^31/status1000":
                resp["request_id"] = sent_id + 2**31
                resp["es"], resp["ei"] = 1000, 0
                resp["varbinds"] = list(req["varbinds"])
            elif kind == "id+2^31":
                resp["request_id"] = sent_id + 2**31
            elif kind == "id0/noSuchName":
                resp["request_id"] = 0
                resp["es"], resp["ei"] = 2, 1
                resp["varbinds"] = list(req["varbinds"])
            elif kind == "id0/tooBig-index0":
                resp["request_id"] = 0
                resp["es"], resp["ei"] = 1, 0
                resp["varbinds"] = []
            elif kind == "prefixcomm":
                resp["community"] = b"publi"
            elif kind == "longercomm":
                resp["community"] = b"public1"
            elif kind in ("id+1/genErr", "id+1/noSuchName"):
                # an error response that answers some other request
                resp["request_id"] = sent_id + 1
                resp["es"] = 5 if kind.endswith("genErr") else 2
                resp["ei"] = 1
                resp["varbinds"] = list(req["varbinds"])
            elif kind == "wrongcomm/noSuchName":
                resp["community"] = b"private"
                resp["es"], resp["ei"] = 2, 1
                resp["varbinds"] = list(req["varbinds"])
            elif kind == "wrongcomm":
                resp["community"] = b"private"
            elif kind == "emptycomm":
                resp["community"] = b""
            elif kind == "otherversion":
                resp["version"] = 0 if version == "v2c" else 1
            exchanges.append({"sent_id": sent_id, "resp_id": resp["request_id"], "kind": kind})
            return resp

        if reboot:
            # the engine is known and the agent has restarted since: the next
            # request is answered by a notInTimeWindow report, the client
            # discovers again and repeats the request - the repeated request's
            # response is judged like any other
            warm, warm_exc = ops.run_op(client, ("get", (1, 3, 1, 1)))
            if warm_exc is not None:
                raise world.ScenarioUnavailable("warm-up exchange failed: %r" % (warm_exc,))
            ag.reboot()
            sender.calls = []
        log0 = len(ag.log)
        ag.response_hook = hook
        if v3:
            ag.msg_hook = mhook
        else:
            client, sender = world.make_client(creds(version), ag.handle)
        sender.limit = 14
        CLOCK.on_read = on_read
        try:
            result, exc = ops.run_op(client, op)
        except world.Horizon as hz:
            result, exc = None, hz
        finally:
            CLOCK.on_read = None
        violations = []
        bad = None
        for i, ex in enumerate(exchanges):
            if ex["kind"] in ("wrongcomm", "emptycomm", "otherversion", "wrongcomm/noSuchName", "prefixcomm", "longercomm"):
                bad = (i, "envelope")
                break
            if ex["resp_id"] != ex["sent_id"]:
                bad = (i, "id")
                break
        ename = ops.exc_sig(exc)
        facts = {"op": opname, "version": version, "exchanges": exchanges, "exception": ename, "discovery": disco}
        world.v3_auth_facts(facts, exc, ag)
        bad_disco = next((d for d in disco if d["resp_msg_id"] != d["sent_msg_id"]), None)
        if bad_disco is not None:
            if ename != "InvalidResponseId":
                violations.append({"kind": "foreign-discovery-message-id-not-refused", "detail": {**facts, "result": result}, "facts": facts})
            if len(ag.log) - log0 > (2 if reboot else 1):
                violations.append({"kind": "request-sent-after-foreign-discovery-reply", "detail": facts, "facts": facts})
            obs = (ename, None, len(exchanges), False)
            return obs, violations
        if bad is None:
            if exc is not None:
                violations.append(
                    {"kind": "conformant-echo-rejected", "detail": {**facts, "message": str(exc)[:200]}, "facts": facts}
                )
        else:
            i, what = bad
            if len(exchanges) > i + 1:
                violations.append(
                    {"kind": "continued-after-foreign-response", "detail": facts, "facts": facts}
                )
            if what == "id":
                if ename != "InvalidResponseId":
                    violations.append(
                        {"kind": "foreign-id-not-refused", "detail": {**facts, "result": result}, "facts": facts}
                    )
            else:
                from puresnmp.exc import SnmpError

                if not isinstance(exc, SnmpError):
                    violations.append(
                        {"kind": "foreign-envelope-not-refused", "detail": {**facts, "result": result}, "facts": facts}
                    )
        obs = (ename, result if bad is None else None, len(exchanges), bad is None)
        return obs, violations

    return run


def shards(tier):
    out = []
    v3s = ["v3:authNoPriv:md5", "v3:authNoPriv:md5+reboot"] if tier == "quick" else ["v3:noAuthNoPriv:md5", "v3:authNoPriv:md5", "v3:authPriv:sha1", "v3:authNoPriv:md5+reboot", "v3:authPriv:sha1+reboot"]
    for version in ["v2c", "v1"] + v3s:
        for opname in OPS:
            if version == "v1" and opname in NO_V1:
                continue
            out.append({"op": opname, "version": version, "tier": tier})
    for version in ["v2c", "v3:authNoPriv:md5"]:
        for opname in ("get", "multiset", "walk", "bulkwalk"):
            out.append({"op": opname, "version": version, "tier": tier, "lib_log": "DEBUG"})
    for version in ["v2c@2038", "v1@2038", "v3:authNoPriv:md5@2038", "v2c@2106"]:
        for opname in ("get", "multiset", "bulkget", "walk", "bulkwalk"):
            if version.startswith("v1") and opname in NO_V1:
                continue
            out.append({"op": opname, "version": version, "tier": tier})
    return out


def run_shard(params, acc):
    opname, version = params["op"], params["version"]
    run = make_run(opname, version)
    # baseline: all defaults (no clock advance, echoing agent)
    _, base_obs, base_viol = explore.run_once(run, ())
    bound = 1 if params["tier"] == "quick" else 2

    def on_exec(ctx, obs, violations):
        nontrivial = 1 if any(ctx.choices) else 0
        acc.count(evaluations=1, nontrivial=nontrivial, traces=1)
        acc.outcome(str(obs[0]))
        if obs[0] is None and obs[3] and obs[1] != base_obs[1]:
            violations.append(
                {
                    "kind": "result-differs-from-undisturbed-run",
                    "detail": {"op": opname, "version": version, "got": obs[1], "expected": base_obs[1]},
                    "facts": {"op": opname, "version": version},
                }
            )
        acc.sample({"op": OPS[opname], "version": version, "choices": list(ctx.choices), "points": [p[0] for p in ctx.points], "outcome": obs[0]}, interesting=bool(any(ctx.choices)))

    stats, found = explore.explore(run, bound=bound, on_exec=on_exec, double_every=50)
    acc.count(evaluations=0, states=stats.nodes + stats.executions, transitions=stats.transitions)
    acc.maxi("max_depth", stats.max_depth)
    acc.bump("double_runs", stats.double_runs)
    seen = set()
    for choices, v in found:
        v = dict(v)
        v["case"] = {"op": opname, "version": version, "choices": list(choices)}
        key = (v["kind"], tuple(e["kind"] for e in v["facts"].get("exchanges", [])))
        if key in seen:
            continue
        seen.add(key)
        acc.violation(v)


def replay(case):
    run = make_run(case["op"], case["version"])
    _, obs, violations = explore.run_once(run, case["choices"])
    return violations


def meta(tier):
    return {
        "level": "model_checking",
        "rule": "choice tree per (operation, version): free clock-advance choice after every clock read x one response perturbation per response (17 alternatives; 11 under SNMPv3 plus 4 alternatives for the message id of the discovery reply; deviation bound %d); an execution is non-trivial when at least one non-default choice was taken; every execution is a run of the real client against the reference agent"
        % (1 if tier == "quick" else 2),
        "exhaustive": True,
        "bounds": {"response_perturbations": 1 if tier == "quick" else 2, "clock_advances": "unbounded", "request_horizon": 12},
        "assumptions": [
            "request ids are derived from time.time (virtual clock installed before puresnmp is imported)",
            "reference BER decoder reads the request-id from the datagram actually sent",
        ],
    }
