"""
C05 - every emitted datagram is the intended request under an independent
decoder.

Every datagram the client hands to its sender is decoded by the reference
BER/SNMP decoder (strict: definite lengths, no trailing octets, Integer32
ranges) - under SNMPv3 after the reference agent verified and decrypted it -
and compared field by field with the request the caller intended.  Argument
universes are boundary sets, swept one dimension at a time around a base
request and as full products over reduced sets.
"""

from itertools import product

from .. import ops, world
from ..clock import CLOCK, EPOCH
from ..ref import agent as ragent
from ..ref import ber, snmp, usm

PROPERTY = "C05"

SUBIDS = [0, 1, 39, 40, 127, 128, 255, 256, 16383, 16384, 2**21 - 1, 2**21, 2**28 - 1, 2**28, 2**32 - 1]
IDS = [0, 1, 127, 128, 255, 256, 32767, 32768, 2**24 - 1, 2**24, 2**24 + 1, int(EPOCH), 2**31 - 2, 2**31 - 1, 2**31, 2**31 + 1, 2**32 - 1, 2**32, 2**32 + 5]
BULK = [0, 1, 127, 128, 255, 65535, 2**31 - 1]
BASE = (1, 3, 6, 1, 2, 1, 1, 5, 0)

VERSIONS = ["v1", "v2c", "v3:noAuthNoPriv:md5", "v3:authNoPriv:sha1", "v3:authPriv:md5"]


def oid_universe(tier):
    out = set()
    # every boundary sub-identifier at every position of a short OID
    for n in (2, 3, 4, 9):
        base = [1, 3] + [6] * (n - 2)
        for pos in range(2, n):
            for s in SUBIDS:
                o = list(base)
                o[pos] = s
                out.add(tuple(o))
    # first / second arc
    for a in (0, 1, 2):
        for b in (0, 1, 39):
            out.add((a, b))
            out.add((a, b, 1))
    out.add((2, 40, 1))
    # many arcs
    lens = (16, 64, 127, 128) if tier == "quick" else tuple(range(2, 129))
    for n in lens:
        out.add(tuple([1, 3] + [(i * 37) % 300 for i in range(n - 2)]))
    out.add(tuple([1, 3] + [2**32 - 1] * 30))
    return sorted(out)


def value_universe():
    vals = []
    for k in range(0, 32):
        for d in (-1, 0, 1):
            for sign in (1, -1):
                v = sign * (2**k) + d
                if -(2**31) <= v <= 2**31 - 1:
                    vals.append(("int", v))
    for kind, bits in (("c32", 32), ("g32", 32), ("tt", 32), ("c64", 64)):
        for k in range(0, bits + 1):
            for d in (-1, 0, 1):
                v = 2**k + d
                if 0 <= v < 2**bits:
                    vals.append((kind, v))
    for n in list(range(0, 130)) + [255, 256, 300, 1000, 16383, 16384, 65000]:
        vals.append(("str", bytes((i * 11 + 1) % 256 for i in range(n))))
    vals += [("str", b"\x00"), ("str", b"\xff" * 3), ("opaque", b""), ("opaque", b"\x9f\x78\x04abcd"), ("null", None)]
    vals += [("ip", bytes(4)), ("ip", b"\xff\xff\xff\xff"), ("ip", bytes([192, 0, 2, 1])), ("ip", bytes([127, 128, 255, 0]))]
    vals += [("oid", o) for o in [(1, 3), (0, 0), (2, 39, 2**32 - 1), (1, 3, 6, 1, 4, 1, 8072, 128, 16384)]]
    # distinct
    seen, out = set(), []
    for v in vals:
        if v not in seen:
            seen.add(v)
            out.append(v)
    return out


class Env:
    def __init__(self, version, community="public", context_name=b"", context_engine=b"", engine_id=None, user_name=None):
        self.version = version
        self.community = community
        self.context_name = context_name
        self.context_engine = context_engine
        db = {BASE: ("str", b"x"), BASE[:-2] + (6, 0): ("int", 1)}
        kw = {"context_name": context_name, "engine_id": context_engine}
        if version == "v1":
            from puresnmp.credentials import V1

            self.agent = ragent.Agent(db)
            self.agent.check_community = False
            self.client, self.sender = world.make_client(V1(community), self.agent.handle, **kw)
            self.user = None
        elif version == "v2c":
            from puresnmp.credentials import V2C

            self.agent = ragent.Agent(db)
            self.agent.check_community = False
            self.client, self.sender = world.make_client(V2C(community), self.agent.handle, **kw)
            self.user = None
        else:
            _, level, method = version.split(":")
            name = (user_name or "alice").encode()
            self.user, creds = world.v3_user(level, method, name=name)
            akw = {"engine_id": engine_id} if engine_id else {}
            self.agent = ragent.V3Agent(db, [self.user], clock=lambda: CLOCK.now, **akw)
            self.client, self.sender = world.make_client(creds, self.agent.handle, **kw)


def intended(op):
    """-> (pdu tag, f1, f2, varbinds) of the (first) request of an operation"""
    name, a = op[0], op[1:]
    N = ("null", None)
    if name == "get":
        return snmp.PDU_GET, 0, 0, [(a[0], N)]
    if name == "multiget":
        return snmp.PDU_GET, 0, 0, [(o, N) for o in a[0]]
    if name in ("getnext", "walk", "table"):
        return snmp.PDU_GETNEXT, 0, 0, [(a[0], N)]
    if name == "multigetnext":
        return snmp.PDU_GETNEXT, 0, 0, [(o, N) for o in a[0]]
    if name == "multiwalk":
        return snmp.PDU_GETNEXT, 0, 0, [(o, N) for o in sorted(a[0])]
    if name == "set":
        return snmp.PDU_SET, 0, 0, [(a[0], a[1])]
    if name == "multiset":
        return snmp.PDU_SET, 0, 0, list(a[0])
    if name == "bulkget":
        return snmp.PDU_GETBULK, len(a[0]), a[2], [(o, N) for o in list(a[0]) + list(a[1])]
    if name == "bulkwalk":
        return snmp.PDU_GETBULK, 0, a[1], [(o, N) for o in sorted(a[0])]
    if name == "bulktable":
        return snmp.PDU_GETBULK, 0, a[1], [(a[0], N)]
    raise world.HarnessError(name)


def run_case(env, op, clock_value):
    CLOCK.reset(float(clock_value))
    world.reset_plugins()
    env.agent.log = []
    env.sender.calls = []
    env.sender.limit = 8
    try:
        result, exc = ops.run_op(env.client, op)
    except world.Horizon as hz:
        result, exc = None, hz
    return judge(env, op, clock_value, exc)


def judge(env, op, clock_value, exc):
    out = []
    facts = {"version": env.version, "op": op, "clock": clock_value, "exception": ops.exc_sig(exc)}

    def bad(kind, **detail):
        out.append({"kind": kind, "detail": {**facts, **detail}, "facts": facts})

    calls = env.sender.calls
    if not calls:
        bad("nothing-sent", message=str(exc)[:200])
        return out, 0
    tag, f1, f2, vbs = intended(op)
    v3 = env.version.startswith("v3")
    data_requests = 0
    for idx, (endpoint, packet, kw) in enumerate(calls):
        try:
            msg = snmp.dec_message(packet, check_range=True)
        except ber.BerError as exc2:
            bad("datagram-not-well-formed-for-the-reference-decoder", error=str(exc2), datagram=packet[:80])
            continue
        want_version = {"v1": 0, "v2c": 1}.get(env.version, 3)
        if msg["version"] != want_version:
            bad("wrong-version-field", got=msg["version"])
            continue
        if v3:
            entry = next((e for e in env.agent.log if e["raw"] == packet), None)
            if entry is None:
                bad("datagram-never-reached-the-agent")
                continue
            if entry.get("discovery"):
                continue
            if entry.get("verdict") != "ok":
                bad("reference-agent-refuses-request", verdict=entry.get("verdict"))
                continue
            m = entry["msg"]
            level = env.user.level
            if m["flags"] != (level | 4):
                bad("msgflags-differ-from-level-plus-reportable", got=m["flags"], expected=level | 4)
            if m["sec_model"] != 3 or m["max_size"] < 484:
                bad("bad-header-data", sec_model=m["sec_model"], max_size=m["max_size"])
            if not 0 <= m["msg_id"] <= 2**31 - 1:
                bad("msgID-outside-0..2^31-1", got=m["msg_id"])
            sp = m["usm"]
            if sp["engine_id"] != env.agent.engine_id or sp["user"] != env.user.name or sp["boots"] != env.agent.boots:
                bad("wrong-usm-parameters", got=(sp["engine_id"], sp["user"], sp["boots"]))
            sc = m["scoped"]
            want_ce = env.context_engine or env.agent.engine_id
            if sc["context_engine_id"] != want_ce or sc["context_name"] != env.context_name:
                bad("wrong-context", got=(sc["context_engine_id"], sc["context_name"]), expected=(want_ce, env.context_name))
            pdu = sc["pdu"]
        else:
            if msg["community"] != env.community.encode("ascii"):
                bad("wrong-community", got=msg["community"])
            pdu = msg["pdu"]
        data_requests += 1
        # Which id a request carries is the client's own business (today the
        # clock's second, tomorrow a counter or a random number): the property
        # only asks for an Integer32 (the strict decoder above) that the client
        # recognises when a conformant agent echoes it (below; C07 in depth).
        if data_requests == 1:
            if pdu["tag"] != tag:
                bad("wrong-pdu-type", got=pdu["tag"], expected=tag)
            if (pdu["f1"], pdu["f2"]) != (f1, f2):
                bad("wrong-error-or-bulk-fields", got=(pdu["f1"], pdu["f2"]), expected=(f1, f2))
            if pdu["varbinds"] != vbs:
                bad("varbinds-differ-from-the-callers", got=pdu["varbinds"][:4], expected=vbs[:4])
        else:
            if pdu["tag"] != tag:
                bad("wrong-pdu-type-in-continuation", got=pdu["tag"])
            if any(v != ("null", None) for _, v in pdu["varbinds"]) and tag != snmp.PDU_SET:
                bad("continuation-request-binds-values")
    if data_requests == 0:
        bad("no-data-request-sent", message=str(exc)[:200])
    if type(exc).__name__ == "InvalidResponseId":
        bad("echo-of-the-emitted-request-id-refused", message=str(exc)[:200])
    return out, len(calls)


def plan(tier):
    """-> list of (env key, op, clock value); env key = (version, community,
    ctx name, ctx engine, agent engine id)"""
    cases = []
    base_env = lambda v: (v, "public", b"", b"", None)
    T0 = int(EPOCH)
    oids = oid_universe(tier)
    for v in VERSIONS:
        # F1 OIDs
        for o in oids:
            cases.append((base_env(v), ("get", o), T0))
            cases.append((base_env(v), ("getnext", o), T0))
            if v != "v1":
                cases.append((base_env(v), ("bulkget", [o], [BASE], 1), T0))
            if tier == "thorough" or len(o) < 10:
                cases.append((base_env(v), ("set", o, ("int", 1)), T0))
        # F2 SET values
        for val in value_universe():
            if tier == "quick" and v not in ("v2c", "v3:authPriv:md5") and val[0] == "str" and 5 < len(val[1]) < 120:
                continue
            cases.append((base_env(v), ("set", BASE, val), T0))
        # F3 request ids
        basic = [("get", BASE), ("multiget", [BASE, (1, 3, 1)]), ("getnext", BASE), ("multigetnext", [BASE, (1, 3)]), ("set", BASE, ("str", b"v")),
                 ("multiset", [(BASE, ("int", 5)), ((1, 3, 9), ("str", b"w"))]), ("walk", BASE[:-2]), ("multiwalk", [BASE[:-1], BASE[:-2] + (6,)]), ("table", BASE[:-3])]
        if v != "v1":
            basic += [("bulkget", [(1, 3)], [BASE, (1, 4)], 3), ("bulkwalk", [BASE[:-2]], 5), ("bulktable", BASE[:-4], 7)]
        for rid in IDS:
            for op in basic:
                cases.append((base_env(v), op, rid))
        # F4 bulk parameters
        if v != "v1":
            for n in (0, 1, 2):
                for m in BULK:
                    cases.append((base_env(v), ("bulkget", [BASE] * n, [(1, 3)] * (2 - n) or [], m), T0))
            for m in BULK[1:]:
                cases.append((base_env(v), ("bulkwalk", [BASE[:-2]], m), T0))
        # F5 envelope
        lens = list(range(0, 301)) if tier == "thorough" else list(range(0, 140)) + [255, 256, 300]
        if v in ("v1", "v2c"):
            for n in lens:
                cases.append(((v, "c" * n, b"", b"", None), ("get", BASE), T0))
        else:
            for n in lens:
                cases.append(((v, "public", b"n" * n, b"", None), ("get", BASE), T0))
            eids = [b"\x80\x00\x1f\x88" + bytes(range(1, n - 3)) for n in range(5, 33)]
            # engine ids containing runs of zero octets (zero-padded formats)
            eids += [b"\x80\x00\x1f\x88\x05" + bytes(z) + b"\x2a" for z in (1, 11, 12, 13, 26)] + [b"\x00" * 12, b"\x80" + b"\x00" * 31, b"\xff" * 32]
            for eid in eids:
                cases.append(((v, "public", b"", b"", eid), ("get", BASE), T0))
                cases.append(((v, "public", b"ctx", eid[::-1], None), ("set", BASE, ("int", 1)), T0))
    return cases


def run_switches(acc):
    """credential family switches (permanent and temporary) followed by a
    request: the datagram must speak the protocol of the active credentials"""
    from puresnmp.credentials import V1, V2C

    def mk(name):
        if name == "v1":
            return V1("comm-one")
        if name == "v2c":
            return V2C("comm-two")
        return world.v3_user("authNoPriv", "md5")[1]

    names = ["v1", "v2c", "v3"]
    T0 = int(EPOCH)
    for a in names:
        for b in names:
            for how in ("configure", "reconfigure"):
                CLOCK.reset(float(T0))
                world.reset_plugins()
                env = Env("v3:authNoPriv:md5")
                from ..world import DirectSender
                from puresnmp import Client

                community_agent = ragent.Agent({BASE: ("str", b"x")})
                community_agent.check_community = False

                def handle(packet, env=env, community_agent=community_agent):
                    ver = snmp.dec_message(packet)["version"]
                    return env.agent.handle(packet) if ver == 3 else community_agent.handle(packet)

                sender = DirectSender(handle)
                client = Client("192.0.2.1", mk(a), sender=sender)
                env.client, env.sender = client, sender
                env.version = {"v1": "v1", "v2c": "v2c", "v3": "v3:authNoPriv:md5"}[b]
                env.community = {"v1": "comm-one", "v2c": "comm-two"}.get(b, "public")
                if how == "configure":
                    client.configure(credentials=mk(b))
                    violations, n = run_case_keep_clock(env, ("get", BASE), T0)
                else:
                    with client.reconfigure(credentials=mk(b)):
                        violations, n = run_case_keep_clock(env, ("get", BASE), T0)
                acc.count(evaluations=1, nontrivial=1, states=1, transitions=n, traces=n)
                acc.outcome("ok" if not violations else violations[0]["kind"])
                for v in violations[:1]:
                    v["case"] = {"switch": [a, b, how]}
                    acc.violation(v)
    acc.sample({"family": "credential switch then get", "pairs": len(names) ** 2 * 2})


def run_case_keep_clock(env, op, clock_value):
    env.agent.log = []
    env.sender.calls = []
    env.sender.limit = 8
    try:
        result, exc = ops.run_op(env.client, op)
    except world.Horizon as hz:
        result, exc = None, hz
    return judge(env, op, clock_value, exc)


def shards(tier):
    n = 64
    return [{"tier": tier, "part": i, "of": n} for i in range(n)] + [{"tier": tier, "switches": True}]


def run_shard(params, acc):
    if params.get("switches"):
        run_switches(acc)
        return
    cases = plan(params["tier"])[params["part"] :: params["of"]]
    envs = {}
    for key, op, clock_value in cases:
        # one environment per (configuration, clock value): the agent's
        # engine time is tied to the virtual clock
        ekey = (key, clock_value)
        env = envs.get(ekey)
        if env is None:
            if len(envs) > 40:
                envs.clear()
            version, community, cn, ce, eid = key
            CLOCK.reset(float(clock_value))
            env = envs[ekey] = Env(version, community, cn, ce, eid)
        violations, ndatagrams = run_case(env, op, clock_value)
        acc.count(evaluations=1, nontrivial=1, states=1, transitions=ndatagrams, traces=ndatagrams)
        acc.bump("datagrams_decoded", ndatagrams)
        acc.outcome("ok" if not violations else violations[0]["kind"])
        acc.sample({"version": key[0], "op": op, "clock": clock_value, "datagrams": ndatagrams}, interesting=op[0] in ("bulkget", "multiset"))
        seen = set()
        for v in violations:
            if v["kind"] in seen:
                continue
            seen.add(v["kind"])
            v["case"] = {"env": list(key), "op": op, "clock": clock_value}
            acc.violation(v)


def _detuple(x):
    if isinstance(x, list):
        return [_detuple(i) for i in x]
    return x


def replay(case):
    from .c04 import _tuplify

    if "switch" in case:
        class A:
            def __init__(self):
                self.v = []
            def count(self, **k): pass
            def outcome(self, *a, **k): pass
            def sample(self, *a, **k): pass
            def violation(self, v): self.v.append(v)
        a = A()
        run_switches(a)
        return [v for v in a.v if v["case"]["switch"] == case["switch"]]
    key = case["env"]
    CLOCK.reset(float(case["clock"]))
    env = Env(key[0], key[1], key[2] or b"", key[3] or b"", key[4])
    op = case["op"]
    name = op[0]
    if name in ("get", "getnext", "multiget", "multigetnext", "set", "multiset", "bulkget"):
        op = _tuplify(op)
    elif name in ("walk", "table"):
        op = (name, tuple(op[1]))
    elif name == "multiwalk":
        op = (name, [tuple(o) for o in op[1]])
    elif name == "bulkwalk":
        op = (name, [tuple(o) for o in op[1]], op[2])
    elif name == "bulktable":
        op = (name, tuple(op[1]), op[2])
    return run_case(env, op, case["clock"])[0]


def meta(tier):
    return {
        "level": "model_checking",
        "rule": "every datagram captured at the sender seam is decoded by the strict reference decoder and compared with the intended request; sweeps per protocol version %r: OID universe (%d OIDs: every boundary sub-identifier %r at every position of 2-9 arc OIDs, first/second arc combinations, OIDs of up to 128 arcs) x get/getnext/bulkget/set; SET value universe (%d typed values over byte and sign boundaries, strings up to 65000 octets); request ids (clock values) %r x every operation; non-repeaters/max-repetitions %r; community strings and context names of every length 0..%d, engine ids of 5..32 octets (also zero-padded ones); states = operations, transitions = datagrams"
        % (VERSIONS, len(oid_universe(tier)), SUBIDS, len(value_universe()), IDS, BULK, 300),
        "exhaustive": True,
        "bounds": {"cases": len(plan(tier))},
        "assumptions": ["BER, not DER: the long form 81 7F that x690 writes for length 127 is well-formed", "request ids above 2^31-1 (clock after 2038) are outside the Integer32 domain of the quantifier", "ASCII community strings", "OIDs below arc 2 with a second arc whose combined first octet exceeds one octet (2.999...) are not SNMP OIDs; x690 refuses to encode them (outside the claim)"],
    }
