"""
C06 - every response value reaches the caller with the type and value that was
sent; re-encoding keeps the content.

Responses are built by the reference encoder: every value kind (INTEGER, OCTET
STRING, NULL, OID, IpAddress, Counter32, Gauge32, TimeTicks, Opaque, Counter64,
noSuchObject, noSuchInstance, endOfMibView) over boundary values x definite
length form of every TLV on the path (minimal; long form with 1..4 length
octets applied to one TLV at a time and to all at once) x binding-list lengths
x request-id / error-index values; delivered through Client.multiget under v1,
v2c and SNMPv3 at every level.  Oracle: class and value returned equal what the
reference decoder reads from the very bytes that were sent.  Second part:
bytes(decode(x)) of PDUs, scoped PDUs, USM parameter blocks and v3 messages is
decoded again by the reference and must carry the same content.
"""

from .. import ops, world
from ..clock import CLOCK, EPOCH
from ..ref import agent as ragent
from ..ref import ber, snmp

PROPERTY = "C06"

OID = (1, 3, 6, 1, 2, 1, 1, 1, 0)
VERSIONS = {"quick": ["v2c", "v1", "v3:authPriv:md5"], "thorough": ["v2c", "v1", "v3:noAuthNoPriv:md5", "v3:authNoPriv:sha1", "v3:authPriv:md5", "v3:authPriv:sha1"]}
STRLENS_QUICK = [0, 1, 2, 100, 126, 127, 128, 129, 255, 256, 257, 300, 1000, 16383, 16384, 65000]


def values(tier):
    out = []
    for k in range(0, 32):
        for d in (-1, 0, 1):
            for sign in (1, -1):
                v = sign * (2**k) + d
                if -(2**31) <= v <= 2**31 - 1:
                    out.append(("int", v))
    for kind, bits in (("c32", 32), ("g32", 32), ("tt", 32), ("c64", 64)):
        for k in range(0, bits + 1):
            for d in (-1, 0, 1):
                v = 2**k + d
                if 0 <= v < 2**bits:
                    out.append((kind, v))
    lens = STRLENS_QUICK if tier == "quick" else list(range(0, 301)) + [1000, 16383, 16384, 65000]
    for n in lens:
        out.append(("str", bytes((i * 13 + 7) % 256 for i in range(n))))
    for n in (0, 1, 7, 127, 128, 300):
        out.append(("opaque", bytes((i * 5 + 1) % 256 for i in range(n))))
    out += [("null", None), ("nso", None), ("nsi", None), ("eomv", None)]
    out += [("ip", bytes(4)), ("ip", b"\xff" * 4), ("ip", bytes([127, 128, 0, 255])), ("ip", bytes([10, 0, 0, 1]))]
    for o in [(0, 0), (1, 3), (2, 39), (1, 3, 6, 1, 4, 1, 8072, 3, 2, 10), (1, 3, 127, 128, 16383, 16384, 2**21, 2**28, 2**32 - 1), (1, 3) + (1,) * 126, (2, 39, 0)]:
        out.append(("oid", o))
    # well-formed non-canonical content octets
    out += [("raw-c32", b"\xff\xff\xff\xff"), ("raw-c32", b"\x80\x00\x00\x00"), ("raw-g32", b"\x80"), ("raw-tt", b"\xff\xff"), ("raw-c64", b"\xff" * 8), ("raw-c64", b"\x00" + b"\xff" * 8),
            ("raw-c32", b"\x00\x00\x00\x01"), ("raw-int", b"\x00\x00\x01"), ("raw-int", b"\xff\xff\x80"), ("raw-int", b"\x00\x7f"), ("raw-g32", b"\x00\x00\x00\x00\x05")]
    seen, res = set(), []
    for v in out:
        if v not in seen:
            seen.add(v)
            res.append(v)
    return res


class Env:
    def __init__(self, version, clock=None):
        CLOCK.reset(float(clock if clock is not None else EPOCH))
        self.version = version
        db = {OID: ("int", 1)}
        if version == "v1":
            from puresnmp.credentials import V1

            self.agent = ragent.Agent(db)
            self.client, self.sender = world.make_client(V1("public"), self.agent.handle)
        elif version == "v2c":
            from puresnmp.credentials import V2C

            self.agent = ragent.Agent(db)
            self.client, self.sender = world.make_client(V2C("public"), self.agent.handle)
        else:
            _, level, method = version.split(":")
            self.client, self.sender, self.agent = world.make_v3(db, level, method)
        # discovery and one plain exchange up front
        ops.run_op(self.client, ("get", OID))


def expected_from_wire(env, sent):
    """what the reference decoder reads from the bytes the agent sent"""
    msg = snmp.dec_message(sent)
    if msg["version"] == 3:
        if "encrypted" in msg:
            from ..ref import usm

            user = list(env.agent.users.values())[0]
            plug = usm.priv_plugin(user.priv[0])
            sp = msg["usm"]
            clear = plug.decrypt_data(user.priv_key(sp["engine_id"]), sp["engine_id"], sp["boots"], sp["time"], sp["priv"], msg["encrypted"])
            pdu = snmp.dec_scoped_pdu(ber.parse(bytes(clear)))["pdu"]
        else:
            pdu = msg["scoped"]["pdu"]
    else:
        pdu = msg["pdu"]
    return pdu


def canonical(v):
    """reference (kind, value) as the client is expected to report it"""
    return v


def run_case(env, case):
    """case: dict(values=[...], form=(part, index, k) | ('all', k) | None,
    rid=..., ei=...)"""
    vals = case["values"]
    n = len(vals)
    oids = [OID[:-1] + (i,) for i in range(n)]
    rid = case.get("rid")
    if rid is not None:
        # the agent's engine time is tied to the virtual clock: a fresh
        # environment per clock value
        env = Env(env.version, clock=rid)
    else:
        CLOCK.reset(float(EPOCH))
    world.reset_plugins()
    env.agent.log = []
    env.sender.calls = []
    form = case.get("form")
    counter = {"i": 0}

    def rhook(agent, req, resp):
        resp = dict(resp)
        resp["es"], resp["ei"] = 0, case.get("ei", 0)
        resp["varbinds"] = [(o, v) for o, v in zip(oids, vals)]
        return resp

    def nhook(node, part):
        if form is None:
            return
        if form[0] == "all":
            apply_form_everywhere(node, form[1])
            return
        if form[0] == part:
            nodes = list(node.walk())
            if form[1] < len(nodes) and _fits(nodes[form[1]], form[2]):
                nodes[form[1]].form = form[2]

    env.agent.response_hook = rhook
    env.agent.node_hook = nhook
    try:
        result, exc = ops.run_op(env.client, ("multiget", oids))
    finally:
        env.agent.response_hook = None
        env.agent.node_hook = None
    out = []
    facts = {"version": env.version, "values": [(k, v if not isinstance(v, bytes) or len(v) < 40 else "%d octets" % len(v)) for k, v in vals], "form": form, "rid": rid, "ei": case.get("ei", 0), "exception": ops.exc_sig(exc)}

    def bad(kind, **detail):
        out.append({"kind": kind, "detail": {**facts, **detail}, "facts": facts})

    sent = [e for e in env.agent.log if "sent" in e and not e.get("discovery")]
    if not sent:
        bad("no-response-was-sent", verdicts=[e.get("verdict") for e in env.agent.log])
        return out
    try:
        pdu = expected_from_wire(env, sent[-1]["sent"])
    except Exception as e:  # noqa
        raise world.HarnessError("reference cannot read its own response: %r" % e)
    want = tuple(v for _, v in pdu["varbinds"])
    if exc is not None:
        bad("well-formed-response-not-accepted", message=str(exc)[:200])
    elif tuple(result) != want:
        diff = [(i, g, w) for i, (g, w) in enumerate(zip(result, want)) if g != w][:3]
        bad("type-or-value-differs-from-reference-decoder", differences=diff, returned=len(result), expected=len(want))
    return out


def apply_form_everywhere(node, k):
    """long form with k length octets on every TLV that fits, children first
    (a parent grows when its children do)"""
    for c in node.children or ():
        apply_form_everywhere(c, k)
    if getattr(node, "raw", None) is None and _fits(node, k):
        node.form = k


def _fits(node, k):
    body = node.content if node.children is None else b"".join(c.encode() for c in node.children)
    return len(body) < (1 << (8 * k))


def n_tlvs(version):
    return {"message": 12 if not version.startswith("v3") else 12, "scoped": 12, "usm": 7}


def plan(tier, version):
    cases = []
    vals = values(tier)
    v1 = version == "v1"
    v3 = version.startswith("v3")
    usable = [v for v in vals if not (v1 and v[0] in ("nso", "nsi", "eomv", "c64", "raw-c64"))]
    # (1) every value, minimal encoding
    for v in usable:
        cases.append(dict(values=[v]))
    # (2) every TLV of the path in every long form, for one value of each kind
    reps = {}
    for v in usable:
        reps.setdefault(v[0], v)
    reps["str127"] = ("str", bytes(127))
    reps["str128"] = ("str", bytes(128))
    parts = {"message": 11} if not v3 else {"message": 9, "usm": 7, "scoped": 11}
    for v in reps.values():
        for part, count in parts.items():
            for idx in range(count):
                for k in (1, 2, 3, 4):
                    cases.append(dict(values=[v], form=(part, idx, k)))
        for k in (1, 2, 3, 4):
            cases.append(dict(values=[v], form=("all", k)))
    # (3) every value in every all-at-once long form (thorough) / form 1 and 4 (quick)
    for v in usable:
        if isinstance(v[1], bytes) and len(v[1]) > 2000:
            continue
        for k in ((1, 4) if tier == "quick" else (1, 2, 3, 4)):
            cases.append(dict(values=[v], form=("all", k)))
    # (4) binding-list lengths
    for n in (0, 2, 3, 50):
        cases.append(dict(values=[usable[(i * 7) % len(usable)] for i in range(n)]))
        cases.append(dict(values=[usable[(i * 11 + 3) % len(usable)] for i in range(n)], form=("all", 2)))
    # (5) request-id and error-index boundary values
    for rid in (0, 1, 127, 128, 255, 256, 32767, 32768, 2**24, 2**31 - 1):
        cases.append(dict(values=[("int", 5)], rid=rid))
    for ei in (0, 1, 2, 127, 128, 2**31 - 1, -1):
        cases.append(dict(values=[("int", 5)], ei=ei))
    return cases


def shards(tier):
    out = []
    for version in VERSIONS[tier]:
        for i in range(12):
            out.append({"tier": tier, "version": version, "part": i, "of": 12})
    out.append({"tier": tier, "reencode": True})
    return out


def run_reencode(tier, acc):
    """bytes(decode(x)) for PDUs, scoped PDUs, USM blocks and v3 messages"""
    from x690 import decode

    from puresnmp.adt import Message, ScopedPDU
    from puresnmp_plugins.security.usm import USMSecurityParameters

    vals = [v for v in values(tier) if not (isinstance(v[1], bytes) and len(v[1]) > 2000)]

    def content_of(data):
        """reference view: nested (tag, content | children)"""
        def conv(t):
            if t.children is not None:
                return (t.tag, tuple(conv(c) for c in t.children))
            if t.tag in ber.TAG_KIND:
                return (t.tag, ber.dec_value(t))
            return (t.tag, t.content)
        return conv(ber.parse_all(data))

    def check(kind, original, again, detail):
        acc.count(evaluations=1, nontrivial=1, states=1, transitions=1)
        try:
            same = content_of(original) == content_of(again)
        except ber.BerError as exc:
            same = False
            detail = dict(detail, error=str(exc))
        acc.outcome("reencode-ok" if same else "reencode-differs")
        if not same:
            facts = {"object": kind, **detail}
            acc.violation({"kind": "re-encoding-changes-the-content", "detail": {**facts, "original": original[:60], "again": again[:60]}, "facts": facts, "case": {"reencode": kind, "detail": detail}})

    for form in (0, 1, 2, 4):
        for i, v in enumerate(vals):
            for tag in (snmp.PDU_RESPONSE, snmp.PDU_TRAP, snmp.PDU_GET):
                if tag != snmp.PDU_RESPONSE and i % 9:
                    continue
                ei = (0, 1, 127, 128, 2**31 - 1, -1)[i % 6]
                # request ids over the whole Integer32 range (agents pick the
                # ids of the notifications they send)
                rid = (1000 + i, -1, -128, -129, -(2**31), 0, 2**31 - 1, 255, -32769)[i % 9]
                node = snmp.pdu_node(tag, rid, 0, ei, [(OID, v), (OID[:-1] + (5,), ("int", i))])
                if form:
                    apply_form_everywhere(node, form)
                raw = node.encode()
                try:
                    obj, _ = decode(raw)
                    _ = obj.value
                    again = bytes(obj)
                except Exception as exc:  # noqa
                    acc.count(evaluations=1, nontrivial=1)
                    facts = {"object": "PDU", "value": v if not isinstance(v[1], bytes) or len(v[1]) < 40 else (v[0], len(v[1])), "form": form}
                    acc.violation({"kind": "well-formed-pdu-not-decodable", "detail": {**facts, "exception": repr(exc)[:200]}, "facts": facts, "case": {"reencode": "PDU"}})
                    continue
                vdesc = v if not isinstance(v[1], bytes) or len(v[1]) < 40 else (v[0], len(v[1]))
                check("PDU", raw, again, {"value": vdesc, "form": form, "tag": tag})
                # the decoded content put into a new PDU object and encoded
                # (this re-encodes every field and value from its Python value)
                try:
                    if v[0] in ("nso", "nsi", "eomv"):
                        # the client library has no encoder for the exception
                        # markers (only agents send them): not judged
                        raise LookupError
                    rebuilt = bytes(type(obj)(obj.value))
                    check("PDU rebuilt from its decoded content", raw, rebuilt, {"value": vdesc, "form": form, "tag": tag, "error_index": ei, "request_id": rid})
                except LookupError:
                    pass
                except Exception as exc:  # noqa
                    facts = {"object": "PDU rebuilt from its decoded content", "value": vdesc, "form": form}
                    acc.violation({"kind": "decoded-pdu-cannot-be-encoded-again", "detail": {**facts, "exception": repr(exc)[:200]}, "facts": facts, "case": {"reencode": "PDU"}})
                if form == 0 and tag == snmp.PDU_RESPONSE:
                    first = obj.value.varbinds[0].value
                    for other_kind in ("null", "nso", "nsi", "eomv"):
                        if other_kind == v[0]:
                            continue
                        other, _ = decode(ber.enc_value(other_kind, None))
                        acc.count(evaluations=1, nontrivial=1)
                        if first == other or other == first:
                            facts = {"object": "value", "value": vdesc, "equals": other_kind}
                            acc.violation({"kind": "values-of-different-types-compare-equal", "detail": facts, "facts": facts, "case": {"reencode": "equality"}})
                if i % 5 == 0:
                    sc = snmp.scoped_pdu_node(b"\x80\x00\x1f\x88\x04eng", b"ctx" * (i % 50), node)
                    sraw = sc.encode()
                    try:
                        again = bytes(ScopedPDU.decode(sraw))
                        check("ScopedPDU", sraw, again, {"form": form, "i": i})
                    except Exception as exc:  # noqa
                        facts = {"object": "ScopedPDU", "form": form}
                        acc.violation({"kind": "well-formed-scoped-pdu-not-decodable", "detail": {**facts, "exception": repr(exc)[:200]}, "facts": facts, "case": {"reencode": "ScopedPDU"}})
                    for fl, payload in ((0, sc), (1, sc), (3, ber.n_str(bytes(range(i % 200))))):
                        sp = snmp.usm_params_node(b"\x80\x00\x1f\x88" + bytes(i % 28 + 1), i, 2**31 - 1 - i, b"u" * (i % 33), b"\x00" * (12 if fl else 0), b"s" * (8 if fl == 3 else 0))
                        if form:
                            apply_form_everywhere(sp, form)
                        spraw = sp.encode()
                        try:
                            again = bytes(USMSecurityParameters.decode(spraw))
                            check("USMSecurityParameters", spraw, again, {"form": form, "i": i})
                        except Exception as exc:  # noqa
                            facts = {"object": "USMSecurityParameters", "form": form, "flags": fl}
                            acc.violation({"kind": "well-formed-security-parameters-not-decodable", "detail": {**facts, "exception": repr(exc)[:200]}, "facts": facts, "case": {"reencode": "USMSecurityParameters"}})
                        m = snmp.v3_msg_node(2**31 - 1 - i, 65507 + i, fl | 4, 3, spraw, payload)
                        mraw = m.encode()
                        try:
                            again = bytes(Message.decode(mraw))
                            check("Message", mraw, again, {"form": form, "i": i, "flags": fl})
                        except Exception as exc:  # noqa
                            facts = {"object": "Message", "form": form, "flags": fl}
                            acc.violation({"kind": "well-formed-message-not-decodable", "detail": {**facts, "exception": repr(exc)[:200]}, "facts": facts, "case": {"reencode": "Message"}})
    acc.sample({"family": "bytes(decode(x)) for PDU / ScopedPDU / USMSecurityParameters / Message, compared under the reference decoder", "values": len(vals)})


def run_shard(params, acc):
    if params.get("reencode"):
        run_reencode(params["tier"], acc)
        return
    env = Env(params["version"])
    cases = plan(params["tier"], params["version"])[params["part"] :: params["of"]]
    for case in cases:
        violations = run_case(env, case)
        acc.count(evaluations=1, nontrivial=1, states=1, transitions=1, traces=1)
        acc.outcome("ok" if not violations else violations[0]["kind"])
        acc.sample({"version": params["version"], "values": [(k, v if not isinstance(v, bytes) or len(v) < 20 else "%d octets" % len(v)) for k, v in case["values"]][:3], "form": case.get("form")}, interesting=case.get("form") is not None)
        for v in violations[:1]:
            v["case"] = {"version": params["version"], "case": case}
            acc.violation(v)


def replay(case):
    if "reencode" in case:
        class A:
            def __init__(self):
                self.v = []
            def count(self, **k): pass
            def outcome(self, *a, **k): pass
            def sample(self, *a, **k): pass
            def violation(self, v): self.v.append(v)
        a = A()
        run_reencode("quick", a)
        return a.v[:3]
    env = Env(case["version"])
    c = dict(case["case"])
    c["values"] = [(k, tuple(v) if k == "oid" else v) for k, v in c["values"]]
    if c.get("form"):
        c["form"] = tuple(c["form"])
    return run_case(env, c)


def meta(tier):
    return {
        "level": "model_checking",
        "rule": "responses built by the reference encoder and delivered through Client.multiget under %r: (1) %d values (every kind, integers at every 2^k+-1, strings of boundary lengths up to 65000, OIDs with sub-identifiers up to 2^32-1 and 128 arcs, non-canonical integer contents) in minimal encoding; (2) one value per kind with every TLV of the message (and of the USM block and scoped PDU under SNMPv3) in long form with 1..4 length octets, one TLV at a time, and all at once; (3) every value with all TLVs in long form; (4) binding lists of 0, 2, 3, 50 entries; (5) request-id and error-index boundary values; plus re-encoding of PDUs, scoped PDUs, USM blocks and v3 messages compared under the reference decoder; states = responses, transitions = exchanges"
        % (VERSIONS[tier], len(values(tier))),
        "exhaustive": True,
        "bounds": {"versions": VERSIONS[tier], "values": len(values(tier))},
        "assumptions": ["'same content' is semantic equality under the reference decoder, not byte equality", "indefinite lengths are outside the quantifier"],
    }
