"""
C15 - the pythonic wrapper returns only built-in Python types, equal to the
element-wise pythonisation of the raw client's results.

Enumeration: every PyWrapper method x every value kind (13) placed at every
position the method can return (scalar, list element, mapping value, table
cell, bulk scalar, bulk listing) x two values per kind.  Oracle: recursive type
inspection (dictionary keys included) and equality with the reference
pythonisation (vmc.ref.models.pythonise) of what the raw Client returns for the
same exchange against a fresh copy of the same agent.
"""

import datetime
import ipaddress

from .. import drive, ops, world
from ..ref import agent as ragent
from ..ref import models

PROPERTY = "C15"

VALUES = {
    "int": [("int", -129), ("int", 2**31 - 1), ("int", 0)],
    "str": [("str", b""), ("str", b"caf\xc3\xa9\x00\xff"), ("str", b"\x00")],
    "null": [("null", None)],
    "oid": [("oid", (1, 3, 6, 1, 4, 1, 8072)), ("oid", (0, 0)), ("oid", (1, 3))],
    "ip": [("ip", bytes([192, 0, 2, 1])), ("ip", bytes([255, 255, 255, 255])), ("ip", bytes(4))],
    "c32": [("c32", 0), ("c32", 2**32 - 1)],
    "g32": [("g32", 2**31), ("g32", 7), ("g32", 0)],
    "tt": [("tt", 29), ("tt", 2**32 - 1), ("tt", 0)],
    "opaque": [("opaque", b"\x9f\x78\x04\x00\x00\x00\x00"), ("opaque", b""), ("opaque", b"\x00")],
    # (zero and values whose content octets coincide with those of another
    # kind: Counter64 0 / OID 0.0 / INTEGER 0 all have the content 00;
    # Counter64 43 and OID 1.3 the content 2b)
    "c64": [("c64", 2**64 - 1), ("c64", 1), ("c64", 0), ("c64", 43)],
}
MARKERS = ["nso", "nsi", "eomv"]

ALLOWED = (str, int, bytes, datetime.timedelta, ipaddress.IPv4Address, type(None))

T = (1, 3, 5)  # table OID; entry = T.1; columns 1,2 ; rows 1, 2
ENTRY = T + (1,)
T2 = (1, 3, 6)


def build_db(value, other=None):
    """the value under test sits at a scalar, inside a walked subtree and in a
    table cell; neighbours have other types - or, in the pair family, are all
    the one *other* value (one result then holds both)"""
    n = (lambda default: default) if other is None else (lambda default: other)
    return {
        (1, 3, 1, 1, 0): value,
        (1, 3, 1, 2, 0): n(("int", 42)),
        # last sub-identifiers 72 (48) and 200 (81 48): encodings that share
        # their final octet
        (1, 3, 1, 3, 72): n(("int", 72)),
        (1, 3, 1, 3, 200): value,
        (1, 3, 2, 1, 0): n(("str", b"x")),
        ENTRY + (1, 1): n(("int", 1)),
        ENTRY + (1, 2): value,
        ENTRY + (2, 1): value,
        ENTRY + (2, 2): n(("str", b"y")),
        # a sparse table: row 1 lacks column 1, row 2 (the first one a
        # column-wise walk meets) lacks column 2, row 3 has both
        T2 + (1, 1, 2): value,
        T2 + (1, 1, 3): n(("int", 13)),
        T2 + (1, 2, 1): n(("str", b"r1c2")),
        T2 + (1, 2, 3): value,
        (1, 3, 9, 1, 0): value,
        # a sibling subtree whose number starts with the digits of 1.3.1
        (1, 3, 10, 1, 0): value,
        (1, 3, 10, 2, 0): n(("int", 77)),
    }


# values of different kinds whose BER contents coincide or are tiny: every
# ordered pair of them shares results in the pair family
SMALL = [("int", 0), ("int", 43), ("str", b"\x00"), ("str", b"+"), ("oid", (0, 0)), ("oid", (1, 3)), ("c32", 0), ("c32", 43), ("g32", 0), ("g32", 43),
         ("tt", 0), ("tt", 43), ("opaque", b"\x00"), ("opaque", b"+"), ("c64", 0), ("c64", 43), ("null", None), ("tt", 29), ("tt", 30)]
PAIR_METHODS = ("multiget", "walk", "multiwalk", "bulkwalk", "bulkget", "table", "table-sparse", "bulktable")


def pair_cases():
    out = []
    for a in SMALL:
        for b in SMALL:
            if a == b:
                continue
            for label, op in method_ops(a):
                if label in PAIR_METHODS:
                    out.append((label, op, a, b))
    return out


def oid_s(o):
    return ".".join(str(a) for a in o)


def method_ops(value):
    """(label, raw op for ops.run_op, wrapper call description)"""
    A = (1, 3, 1, 1, 0)
    out = [
        ("get", ("get", A)),
        ("getnext", ("getnext", (1, 3, 1, 1))),
        ("multiget", ("multiget", [A, (1, 3, 1, 2, 0), (1, 3, 1, 7, 0), (1, 3, 1, 1, 5)])),
        ("walk", ("walk", (1, 3, 1))),
        ("multiwalk", ("multiwalk", [(1, 3, 1), (1, 3, 9)])),
        ("bulkwalk", ("bulkwalk", [(1, 3, 1), ENTRY], 3)),
        # roots of which one's dotted string is a textual prefix of the other's
        ("multiwalk-prefix-siblings", ("multiwalk", [(1, 3, 1), (1, 3, 10)])),
        ("bulkwalk-prefix-siblings", ("bulkwalk", [(1, 3, 10), (1, 3, 1)], 2)),
        ("bulkget", ("bulkget", [(1, 3, 1, 1), (1, 3, 9, 1, 0)], [(1, 3, 1), (1, 3, 9)], 2)),
        ("bulkget-empty-listing", ("bulkget", [(1, 3, 1, 1), (1, 3, 1, 2)], [], 0)),
        ("bulkget-listing-at-end-of-view", ("bulkget", [(1, 3, 1, 1)], [(1, 3, 9, 1, 0)], 2)),
        ("bulkget-max0", ("bulkget", [(1, 3, 1, 1)], [(1, 3, 1)], 0)),
        ("table", ("table", ENTRY)),
        ("table-sparse", ("table", T2 + (1,))),
        ("bulktable-sparse", ("bulktable", T2, 2)),
        ("bulktable", ("bulktable", T, 2)),
    ]
    if value[0] not in MARKERS:
        out.append(("set", ("set", (1, 3, 1, 2, 0), value)))
        out.append(("multiset", ("multiset", [((1, 3, 1, 2, 0), value), ((1, 3, 2, 1, 0), ("int", 3))])))
    return out


def py_call(w, op):
    """run the PyWrapper method corresponding to the raw op; -> python object"""
    name, a = op[0], op[1:]
    if name == "get":
        return drive.run(w.get(oid_s(a[0])))
    if name == "getnext":
        return drive.run(w.getnext(oid_s(a[0])))
    if name == "multiget":
        return drive.run(w.multiget([oid_s(o) for o in a[0]]))
    if name == "set":
        return drive.run(w.set(oid_s(a[0]), world.to_lib_value(*a[1])))
    if name == "multiset":
        return drive.run(w.multiset({oid_s(o): world.to_lib_value(*v) for o, v in a[0]}))
    if name == "walk":
        items, exc = drive.drain(w.walk(oid_s(a[0])), 1000)
        if exc:
            raise exc
        return items
    if name == "multiwalk":
        items, exc = drive.drain(w.multiwalk([oid_s(o) for o in a[0]]), 1000)
        if exc:
            raise exc
        return items
    if name == "bulkwalk":
        items, exc = drive.drain(w.bulkwalk([oid_s(o) for o in a[0]], bulk_size=a[1]), 1000)
        if exc:
            raise exc
        return items
    if name == "bulkget":
        return drive.run(w.bulkget([oid_s(o) for o in a[0]], [oid_s(o) for o in a[1]], a[2]))
    if name == "table":
        return drive.run(w.table(oid_s(a[0])))
    if name == "bulktable":
        return drive.run(w.bulktable(oid_s(a[0]), bulk_size=a[1]))
    raise world.HarnessError(name)


def expected_from_raw(op, raw):
    """element-wise pythonisation of the normalised raw result, in the shape
    the wrapper documents"""
    name = op[0]
    P = models.pythonise
    if name in ("get", "set"):
        return P(raw)
    if name == "getnext":
        return (oid_s(raw[0]), P(raw[1]))
    if name == "multiget":
        return [P(v) for v in raw]
    if name == "multiset":
        return {oid_s(o): P(v) for o, v in raw}
    if name in ("walk", "multiwalk", "bulkwalk"):
        return [(oid_s(o), P(v)) for o, v in raw]
    if name == "bulkget":
        d = dict(raw)
        return ({oid_s(o): P(v) for o, v in d["scalars"]}, [(oid_s(o), P(v)) for o, v in d["listing"]])
    if name in ("table", "bulktable"):
        rows = []
        for row in raw:
            rows.append({k: (v[1] if k == "0" else P(v)) for k, v in row})
        return sorted(rows, key=lambda r: r["0"])
    raise world.HarnessError(name)


def shape(op, got):
    """wrapper result -> comparable plain structure (named tuples -> tuples)"""
    name = op[0]
    if name == "getnext":
        return tuple(got)
    if name in ("walk", "multiwalk", "bulkwalk"):
        return [tuple(g) for g in got]
    if name == "bulkget":
        return (dict(got.scalars), list(got.listing.items()))
    if name in ("table", "bulktable"):
        return sorted((dict(r) for r in got), key=lambda r: str(r.get("0")))
    return got


def type_leaks(obj, path="result"):
    """paths of objects that are not built-in Python types"""
    from puresnmp.util import BulkResult

    leaks = []
    if isinstance(obj, BulkResult):
        leaks += type_leaks(obj.scalars, path + ".scalars")
        leaks += type_leaks(obj.listing, path + ".listing")
    elif isinstance(obj, dict):
        for k, v in obj.items():
            if type(k) is not str:
                leaks.append("%s key %r: %s" % (path, k, type(k).__name__))
            leaks += type_leaks(v, "%s[%r]" % (path, k))
    elif isinstance(obj, (list, tuple)):
        for i, v in enumerate(obj):
            leaks += type_leaks(v, "%s[%d]" % (path, i))
    elif type(obj) not in ALLOWED:
        leaks.append("%s: %s" % (path, type(obj).__module__ + "." + type(obj).__name__))
    return leaks


def creds(v1=False):
    from puresnmp.credentials import V1, V2C

    return V1("public") if v1 else V2C("public")


def request_view(entry):
    """a request as the agent read it, without its request-id (which ids a
    client picks is its own business: two clients need not pick the same)"""
    msg = entry.get("msg")
    if msg is None:
        return entry["raw"]
    pdu = msg.get("pdu") or {}
    return (msg.get("version"), msg.get("community"), pdu.get("tag"), pdu.get("f1"), pdu.get("f2"), tuple(map(tuple, pdu.get("varbinds", ()))))


def run_case(label, op, value, other=None, v1=False):
    from puresnmp import PyWrapper

    db = build_db(value, other)
    ag1 = ragent.Agent(db)
    client1, _ = world.make_client(creds(v1), ag1.handle)
    raw, raw_exc = ops.run_op(client1, op)
    ag2 = ragent.Agent(db)
    client2, _ = world.make_client(creds(v1), ag2.handle)
    w = PyWrapper(client2)
    out = []
    facts = {"method": label, "value": value, "raw_exception": ops.exc_sig(raw_exc)}

    def bad(kind, **detail):
        out.append({"kind": kind, "detail": {**facts, **detail}, "facts": facts})

    try:
        got = py_call(w, op)
        exc = None
    except drive.HarnessError:
        raise
    except Exception as e:  # noqa
        got, exc = None, e
    if raw_exc is not None or exc is not None:
        if ops.exc_sig(raw_exc) != ops.exc_sig(exc):
            bad("wrapper-and-raw-outcomes-differ", wrapper_exception=repr(exc)[:200])
        return out, 0
    leaks = type_leaks(got)
    if leaks:
        facts["leak_paths"] = leaks[:6]
        bad("non-builtin-type-returned", leaks=leaks[:6])
    want = expected_from_raw(op, raw)
    have = shape(op, got)
    if not leaks and have != want:
        bad("differs-from-pythonised-raw-result", got=repr(have)[:400], expected=repr(want)[:400])
    if [request_view(e) for e in ag1.log] != [request_view(e) for e in ag2.log]:
        bad("wrapper-sent-different-requests")
    return out, len(ag2.log)


def all_cases():
    out = []
    for kind, vals in VALUES.items():
        for v in vals:
            for label, op in method_ops(v):
                out.append((label, op, v))
    return out


def run_sequence(acc):
    """every wrapper method, one after the other on ONE wrapper in one
    process (state kept between calls - caches, shared defaults - must not
    leak from one result into the next); each result is compared with the raw
    client's on a fresh client"""
    from puresnmp import PyWrapper

    value = ("tt", 29)
    db = build_db(value)
    ag = ragent.Agent(db)
    client, _ = world.make_client(creds(), ag.handle)
    w = PyWrapper(client)
    seq = [o for o in method_ops(value) if not o[0].startswith("set") and o[0] != "multiset"]
    seq = seq + list(reversed(seq)) + seq
    for label, op in seq:
        ag1 = ragent.Agent(db)
        c1, _ = world.make_client(creds(), ag1.handle)
        raw, raw_exc = ops.run_op(c1, op)
        facts = {"method": label, "family": "sequence on one wrapper", "value": value}
        violations = []
        try:
            got, exc = py_call(w, op), None
        except drive.HarnessError:
            raise
        except Exception as e:  # noqa
            got, exc = None, e
        if ops.exc_sig(raw_exc) != ops.exc_sig(exc):
            violations.append({"kind": "wrapper-and-raw-outcomes-differ", "detail": {**facts, "wrapper_exception": repr(exc)[:200]}, "facts": facts})
        elif exc is None:
            leaks = type_leaks(got)
            want, have = expected_from_raw(op, raw), shape(op, got)
            if leaks:
                violations.append({"kind": "non-builtin-type-returned", "detail": {**facts, "leaks": leaks[:4]}, "facts": facts})
            elif have != want:
                violations.append({"kind": "differs-from-pythonised-raw-result", "detail": {**facts, "got": repr(have)[:300], "expected": repr(want)[:300]}, "facts": facts})
        acc.count(evaluations=1, nontrivial=1, states=1, transitions=1, traces=1)
        acc.outcome("ok" if not violations else "%s/%s" % (label, violations[0]["kind"]))
        for v in violations[:1]:
            v["case"] = {"sequence": True}
            acc.violation(v)
    acc.sample({"family": "sequence of %d wrapper calls on one wrapper" % len(seq)})


def run_value_sequence(acc, reverse):
    """every value of every kind, one after the other in ONE process through
    get / walk / table on fresh wrappers (conversion state that outlives a
    wrapper - module-level caches keyed by too little - must not carry a
    result from one value to the next); both orders, in separate processes"""
    vals = [v for vs in VALUES.values() for v in vs]
    if reverse:
        vals = list(reversed(vals))
    for value in vals:
        for label, op in method_ops(value):
            if label not in ("get", "walk", "table", "bulkget", "multiget"):
                continue
            violations, nreq = run_case(label, op, value)
            acc.count(evaluations=1, nontrivial=1, states=1, transitions=max(nreq, 1), traces=1)
            acc.outcome("ok" if not violations else "%s/%s" % (label, violations[0]["kind"]))
            for v in violations[:1]:
                v["case"] = {"value_sequence": True, "reverse": reverse}
                acc.violation(v)
    acc.sample({"family": "all %d values in one process, %s order" % (len(vals), "reverse" if reverse else "listed")})


def run_faulty(acc):
    """agents that stop advancing (from the second request on they answer
    with the OID they were asked about / with a smaller one): the wrapper's
    walks must end exactly like the raw client's - same items, same exception
    or none - in strict and in lenient ("warn") mode"""
    from puresnmp import PyWrapper

    value = ("int", 5)
    db = build_db(value)
    cases = [
        ("walk", ("walk", (1, 3, 1)), {}),
        ("walk-warn", ("walk", (1, 3, 1), "warn"), {"errors": "warn"}),
        ("walk-strict-explicit", ("walk", (1, 3, 1), "strict"), {"errors": "strict"}),
        ("multiwalk", ("multiwalk", [(1, 3, 1), (1, 3, 9)]), {}),
        ("bulkwalk", ("bulkwalk", [(1, 3, 1), ENTRY], 2), {}),
    ]
    for fault in ("same", "smaller"):
        for label, op, kw in cases:
            outcomes = []
            for side in ("raw", "wrapper"):
                ag = ragent.Agent(db)
                n = [0]

                def hook(agent, req, resp, n=n, fault=fault):
                    n[0] += 1
                    if n[0] < 2:
                        return resp
                    resp = dict(resp)
                    if fault == "same":
                        resp["varbinds"] = [(o, ("int", 1)) for o, _ in req["varbinds"]]
                    else:
                        resp["varbinds"] = [((1, 2, 9), ("int", 1)) for _ in req["varbinds"]]
                    return resp

                ag.response_hook = hook
                client, sender = world.make_client(creds(), ag.handle)
                sender.limit = 12
                try:
                    if side == "raw":
                        items, exc = ops.run_op(client, op)
                        items = [(oid_s(o), models.pythonise(v)) for o, v in (items or ())]
                    else:
                        w = PyWrapper(client)
                        name, a = op[0], op[1:]
                        if name == "walk":
                            gen = w.walk(oid_s(a[0]), **{k: "".join(list(v)) for k, v in kw.items()})
                        elif name == "multiwalk":
                            gen = w.multiwalk([oid_s(o) for o in a[0]])
                        else:
                            gen = w.bulkwalk([oid_s(o) for o in a[0]], bulk_size=a[1])
                        items, exc = drive.drain(gen, 1000)
                        items = [tuple(i) for i in items]
                except world.Horizon as hz:
                    items, exc = None, hz
                outcomes.append((items, ops.exc_sig(exc), len(ag.log)))
            facts = {"family": "agent that stops advancing", "fault": fault, "method": label}
            acc.count(evaluations=1, nontrivial=1, states=1, transitions=outcomes[0][2] + outcomes[1][2], traces=1)
            ok = outcomes[0] == outcomes[1]
            acc.outcome("ok" if ok else "%s/wrapper-and-raw-outcomes-differ" % label)
            if not ok:
                acc.violation({"kind": "wrapper-and-raw-outcomes-differ", "detail": {**facts, "raw": repr(outcomes[0])[:300], "wrapper": repr(outcomes[1])[:300]}, "facts": facts, "case": {"faulty": True}})
    acc.sample({"family": "walks against agents that stop advancing, strict and lenient, raw vs wrapper"})


def shards(tier):
    return (
        [{"part": i, "of": 8, "tier": tier} for i in range(8)]
        + [{"pairs": True, "part": i, "of": 8, "tier": tier} for i in range(8)]
        + [{"v1": True, "tier": tier}]
        + [{"sequence": True, "tier": tier}]
        + [{"value_sequence": True, "reverse": r, "tier": tier} for r in (False, True)]
        + [{"faulty": True, "tier": tier}]
    )


def run_shard(params, acc):
    if params.get("sequence"):
        run_sequence(acc)
        return
    if params.get("value_sequence"):
        run_value_sequence(acc, params["reverse"])
        return
    if params.get("faulty"):
        run_faulty(acc)
        return
    if params.get("v1"):
        # the wrapper around an SNMPv1 client (one value per kind; Counter64
        # and the exception markers do not exist in SNMPv1)
        for kind, vals in VALUES.items():
            if kind == "c64":
                continue
            value = vals[0]
            for label, op in method_ops(value):
                violations, nreq = run_case(label, op, value, None, True)
                acc.count(evaluations=1, nontrivial=1, states=1, transitions=max(nreq, 1), traces=1)
                acc.outcome("ok" if not violations else "v1/%s/%s" % (label, violations[0]["kind"]))
                for v in violations:
                    v["case"] = {"label": label, "value": value, "v1": True}
                    acc.violation(v)
        return
    if params.get("pairs"):
        for label, op, value, other in pair_cases()[params["part"] :: params["of"]]:
            violations, nreq = run_case(label, op, value, other)
            acc.count(evaluations=1, nontrivial=1, states=1, transitions=max(nreq, 1), traces=1)
            acc.outcome("ok" if not violations else "%s/%s" % (label, violations[0]["kind"]))
            acc.sample({"method": label, "value": value, "other": other, "requests": nreq})
            for v in violations:
                v["case"] = {"label": label, "value": value, "other": other}
                acc.violation(v)
        return
    for label, op, value in all_cases()[params["part"] :: params["of"]]:
        violations, nreq = run_case(label, op, value)
        acc.count(evaluations=1, nontrivial=1, states=1, transitions=max(nreq, 1), traces=1)
        acc.outcome("ok" if not violations else "%s/%s" % (label, violations[0]["kind"]))
        acc.sample({"method": label, "value": value, "requests": nreq}, interesting=label in ("bulkget", "table"))
        for v in violations:
            v["case"] = {"label": label, "value": value}
            acc.violation(v)


def replay(case):
    if case.get("faulty"):
        class F:
            def __init__(self):
                self.v = []
            def count(self, **k): pass
            def outcome(self, *a, **k): pass
            def sample(self, *a, **k): pass
            def violation(self, v): self.v.append(v)
        f = F()
        run_faulty(f)
        return f.v
    if case.get("value_sequence"):
        class B:
            def __init__(self):
                self.v = []
            def count(self, **k): pass
            def outcome(self, *a, **k): pass
            def sample(self, *a, **k): pass
            def violation(self, v): self.v.append(v)
        b = B()
        run_value_sequence(b, case["reverse"])
        return b.v
    if case.get("sequence"):
        class A:
            def __init__(self):
                self.v = []
            def count(self, **k): pass
            def outcome(self, *a, **k): pass
            def sample(self, *a, **k): pass
            def violation(self, v): self.v.append(v)
        a = A()
        run_sequence(a)
        return a.v
    value = tuple(case["value"])
    if value[0] == "oid":
        value = ("oid", tuple(value[1]))
    label = case["label"]
    op = dict(method_ops(value))[label]
    other = case.get("other")
    if other is not None:
        other = tuple(other)
        if other[0] == "oid":
            other = ("oid", tuple(other[1]))
    return run_case(label, op, value, other, bool(case.get("v1")))[0]


def meta(tier):
    return {
        "level": "model_checking",
        "rule": "full product: PyWrapper method (get, getnext, multiget, set, multiset, walk, multiwalk, bulkwalk, bulkget, table, bulktable) x value kind (10 settable kinds, 1-2 boundary values each; noSuchObject/noSuchInstance arise in multiget, endOfMibView in bulkget scalars) placed at scalar, list, mapping, table-cell, bulk-scalar and bulk-listing positions; pair family: every ordered pair of 19 small values of different kinds (equal or one-octet BER contents) sharing one result of the multi-value methods; each case runs the wrapper and the raw client against two fresh copies of the reference agent; states = cases, transitions = exchanges",
        "exhaustive": True,
        "bounds": {"values_per_kind": 2},
        "assumptions": ["reference pythonisation map in vmc/ref/models.py", "BulkResult is accepted as the documented container of bulkget"],
    }
