"""
C16 - table fetches: one row per index, every cell exactly once, both variants
agree.

Small-scope enumeration of tables: 1..3 columns x 0..3 rows x every sparsity
pattern (each cell present/absent) x index shapes (1, 2, 3 sub-identifiers and
rows of different index length in one table) x neighbouring objects before /
after the table x bulk sizes.  Client.table(entry OID), Client.bulktable(table
OID) and the PyWrapper variants are run against the reference agent and
compared with the reference table view {index: {column: value}}.
"""

from itertools import product

from .. import drive, ops, world
from ..ref import agent as ragent
from ..ref import models

PROPERTY = "C16"

# table OIDs: an ordinary one and one that itself ends in .1 (like ifXTable)
TABLES = [(1, 3, 5), (1, 3, 1)]
BEFORE = ((1, 2, 9), ("str", b"before"))
AFTER = ((1, 3, 6, 1), ("str", b"after"))


def after10(T):
    """a neighbour whose OID has the decimal digits of the table OID as a
    prefix (1.3.5 -> 1.3.50.1)"""
    return (T[:-1] + (T[-1] * 10, 1), ("str", b"after10"))

INDEX_SHAPES = {
    "single": [(1,), (2,), (10,), (4294967295,)],
    "double": [(1, 1), (1, 2), (2, 1), (2, 128)],
    "triple": [(1, 1, 1), (1, 1, 2), (2, 0, 0), (2, 0, 16384)],
    "mixed": [(1,), (1, 1), (2,), (2, 0, 1)],
}
COLUMNS = [1, 2, 10]


def bounds(tier):
    if tier == "quick":
        return {"shapes": list(INDEX_SHAPES), "bulk": [1, 2, 5, 10], "neighbours": [(0, 0), (0, 1), (1, 0), (1, 2)], "max_cols": 3, "max_rows": 3, "py_max_cells": 4, "shapes_second_table": ["single", "mixed"]}
    return {"shapes": list(INDEX_SHAPES), "bulk": [1, 2, 3, 5, 10, 25], "neighbours": [(0, 0), (0, 1), (1, 0), (1, 1), (0, 2), (1, 2)], "max_cols": 3, "max_rows": 4, "py_max_cells": 12, "shapes_second_table": list(INDEX_SHAPES)}


def tables(b):
    """-> (shape, ncols, nrows, presence bitmask, neighbours)"""
    for ti, shape in [(ti, sh) for ti in range(len(TABLES)) for sh in b["shapes"] if ti == 0 or sh in b["shapes_second_table"]]:
        for ncols in range(1, b["max_cols"] + 1):
            for nrows in range(0, b["max_rows"] + 1):
                cells = ncols * nrows
                for mask in range(1 << cells):
                    for nb in b["neighbours"]:
                        yield (shape, ncols, nrows, mask, nb, ti)


def build(shape, ncols, nrows, mask, nb, ti=0):
    T = TABLES[ti]
    ENTRY = T + (1,)
    db = {}
    idxs = INDEX_SHAPES[shape][:nrows]
    k = 0
    for ci in range(ncols):
        for ri in range(nrows):
            if mask >> k & 1:
                col = COLUMNS[ci]
                val = ("int", 100 * col + ri) if (ci + ri) % 2 == 0 else ("str", b"c%dr%d" % (col, ri))
                db[ENTRY + (col,) + idxs[ri]] = val
            k += 1
    if nb[0]:
        db[BEFORE[0]] = BEFORE[1]
    if nb[1] == 1:
        db[AFTER[0]] = AFTER[1]
    elif nb[1] == 2:
        db[after10(T)[0]] = after10(T)[1]
    return db


def expected_rows(db, ENTRY):
    view = models.table_view(db, ENTRY)
    rows = []
    for idx, cells in view.items():
        row = [("0", ("index", ".".join(str(a) for a in idx)))]
        for col, val in cells.items():
            row.append((str(col), val))
        rows.append(tuple(sorted(row)))
    return tuple(sorted(rows))


def py_rows(w, variant, bulk, T):
    ENTRY = T + (1,)
    if variant == "pytable":
        res = drive.run(w.table(".".join(map(str, ENTRY))))
    else:
        res = drive.run(w.bulktable(".".join(map(str, T)), bulk_size=bulk))
    out = []
    for r in res:
        row = []
        for k, v in r.items():
            row.append((k, ("index", v) if k == "0" else ("py", v)))
        out.append(tuple(sorted(row)))
    return tuple(sorted(out))


def py_expected(rows):
    out = []
    for row in rows:
        out.append(tuple((k, v if k == "0" else ("py", models.pythonise(v))) for k, v in row))
    return tuple(sorted(out))


def creds():
    from puresnmp.credentials import V2C

    return V2C("public")


def run_table(spec, b, client, w):
    db = build(*spec)
    T = TABLES[spec[5]]
    ENTRY = T + (1,)
    want = expected_rows(db, ENTRY)
    ncells = sum(1 for o in db if models.is_prefix(ENTRY, o))
    variants = [("table", None)] + [("bulktable", k) for k in b["bulk"]]
    if ncells <= b["py_max_cells"]:
        variants += [("pytable", None), ("pybulktable", b["bulk"][-1])]
    results = []
    violations = []
    nreq_total = 0
    for variant, bulk in variants:
        ag = ragent.Agent(db)
        world.sender_of(client).handle = ag.handle
        world.sender_of(client).calls = []
        world.sender_of(client).limit = len(db) + 6
        facts = {"db": sorted(db), "table": T, "variant": variant, "bulk": bulk, "shape": spec[0]}
        try:
            if variant == "table":
                got, exc = ops.run_op(client, ("table", ENTRY))
            elif variant == "bulktable":
                got, exc = ops.run_op(client, ("bulktable", T, bulk))
            else:
                try:
                    got, exc = py_rows(w, variant, bulk, T), None
                except drive.HarnessError:
                    raise
                except Exception as e:  # noqa
                    got, exc = None, e
        except world.Horizon as hz:
            got, exc = None, hz
        nreq_total += len(ag.log)
        exp = py_expected(want) if variant.startswith("py") else want
        if exc is not None:
            violations.append({"kind": "table-fetch-raised", "detail": {**facts, "exception": repr(exc)[:200]}, "facts": facts})
        elif got != exp:
            kind = "rows-differ-from-table-model"
            gi = [dict(r).get("0") for r in got]
            if len(set(gi)) != len(gi):
                kind = "several-rows-for-one-index"
            violations.append({"kind": kind, "detail": {**facts, "got": got, "expected": exp}, "facts": facts})
        results.append((variant, bulk, got))
    return violations, nreq_total, len(variants), ncells


def run_large(acc, tier):
    """tables far larger than the small scope (the number of requests of a
    fetch must not matter): 1 column x 800 rows and 3 x 300, by GETNEXT and
    by GETBULK with bulk sizes 1, 10, 33 and 200 (answers with far more than
    32 bindings; the reference agent sends at most 60 repetitions)"""
    client, _ = world.make_client(creds(), lambda p: b"")
    T = TABLES[0]
    ENTRY = T + (1,)
    for ncols, nrows in ((1, 800), (3, 300)) if tier == "quick" else ((1, 800), (3, 300), (2, 1500)):
        db = {BEFORE[0]: BEFORE[1], AFTER[0]: AFTER[1]}
        for c in range(1, ncols + 1):
            for r in range(1, nrows + 1):
                db[ENTRY + (c, r)] = ("int", c * 100000 + r)
        want = expected_rows(db, ENTRY)
        for variant, bulk in (("table", None), ("bulktable", 1), ("bulktable", 10), ("bulktable", 33), ("bulktable", 200)):
            ag = ragent.Agent(db)
            world.sender_of(client).handle = ag.handle
            world.sender_of(client).calls = []
            world.sender_of(client).limit = len(db) + 10
            try:
                got, exc = ops.run_op(client, ("table", ENTRY) if variant == "table" else ("bulktable", T, bulk))
            except world.Horizon as hz:
                got, exc = None, hz
            facts = {"family": "large", "columns": ncols, "rows": nrows, "variant": variant, "bulk": bulk, "requests": len(ag.log)}
            acc.count(evaluations=1, nontrivial=1, states=1, transitions=len(ag.log), traces=1)
            ok = exc is None and got == want
            acc.outcome("ok" if ok else "large-table-wrong")
            if not ok:
                kind = "table-fetch-raised" if exc is not None else "rows-differ-from-table-model"
                acc.violation({"kind": kind, "detail": {**facts, "exception": repr(exc)[:200], "rows_got": len(got) if got else None}, "facts": facts, "case": {"large": [ncols, nrows], "tier": tier}})
    acc.sample({"family": "large tables", "shapes": [[1, 800], [3, 300]]})


def run_two_clients(acc):
    """several Client objects in one process, each talking to its own device,
    fetching with the same bulk sizes one after the other (nothing a client
    builds for itself may end up serving another client)"""
    devices = []
    for d in range(3):
        T = TABLES[d % 2]
        ENTRY = T + (1,)
        db = {BEFORE[0]: BEFORE[1], AFTER[0]: AFTER[1]}
        for c in (1, 2):
            for r in range(1, 3 + d):
                db[ENTRY + (c, r)] = ("int", 1000 * (d + 1) + 10 * c + r)
        ag = ragent.Agent(db)
        client, sender = world.make_client(creds(), ag.handle)
        devices.append((T, ENTRY, db, ag, client))
    for rnd in range(2):
        for variant, bulk in (("bulktable", 10), ("bulktable", 2), ("table", None), ("bulkwalk", 10)):
            for d, (T, ENTRY, db, ag, client) in enumerate(devices):
                del ag.log[:]
                world.sender_of(client).calls = []
                world.sender_of(client).limit = len(db) + 10
                try:
                    if variant == "bulkwalk":
                        got, exc = ops.run_op(client, ("bulkwalk", [ENTRY], bulk))
                        want = tuple((o, v) for o, v in sorted(db.items()) if o[: len(ENTRY)] == ENTRY)
                    else:
                        got, exc = ops.run_op(client, ("table", ENTRY) if variant == "table" else ("bulktable", T, bulk))
                        want = expected_rows(db, ENTRY)
                except world.Horizon as hz:
                    got, exc, want = None, hz, None
                facts = {"family": "several clients in one process", "device": d, "variant": variant, "bulk": bulk, "round": rnd, "requests_seen_by_its_own_device": len(ag.log)}
                ok = exc is None and got == want and len(ag.log) >= 1
                acc.count(evaluations=1, nontrivial=1, states=1, transitions=len(ag.log), traces=1)
                acc.outcome("ok" if ok else "second-client-wrong")
                if not ok:
                    kind = "table-fetch-raised" if exc is not None else ("rows-differ-from-table-model" if got != want else "request-went-to-another-clients-device")
                    acc.violation({"kind": kind, "detail": {**facts, "exception": repr(exc)[:200], "got": repr(got)[:300]}, "facts": facts, "case": {"two_clients": True}})
    acc.sample({"family": "three clients / three devices in one process, same bulk sizes"})


def shards(tier):
    b = bounds(tier)
    specs = list(tables(b))
    n = 64
    return [{"tier": tier, "part": i, "of": n} for i in range(n)] + [{"tier": tier, "large": True}, {"tier": tier, "two_clients": True}]


def run_shard(params, acc):
    from puresnmp import PyWrapper

    if params.get("large"):
        run_large(acc, params["tier"])
        return
    if params.get("two_clients"):
        run_two_clients(acc)
        return
    b = bounds(params["tier"])
    client, _ = world.make_client(creds(), lambda p: b"")
    w = PyWrapper(client)
    specs = list(tables(b))[params["part"] :: params["of"]]
    for spec in specs:
        violations, nreq, nvar, ncells = run_table(spec, b, client, w)
        acc.count(evaluations=nvar, nontrivial=nvar if ncells >= 2 else 0, states=nvar, transitions=nreq, traces=nvar)
        acc.outcome("ok" if not violations else violations[0]["kind"])
        if ncells >= 3:
            acc.sample({"table": TABLES[spec[5]], "index_shape": spec[0], "columns": spec[1], "rows": spec[2], "presence_mask": spec[3], "neighbours": spec[4], "cells": sorted(build(*spec))}, interesting=spec[0] == "mixed")
        for v in violations:
            v["case"] = {"spec": list(spec), "tier": params["tier"]}
            acc.violation(v)


def replay(case):
    from puresnmp import PyWrapper

    if case.get("two_clients"):
        class B:
            def __init__(self):
                self.v = []
            def count(self, **k): pass
            def outcome(self, *a, **k): pass
            def sample(self, *a, **k): pass
            def violation(self, v): self.v.append(v)
        b2 = B()
        run_two_clients(b2)
        return b2.v
    if "large" in case:
        class A:
            def __init__(self):
                self.v = []
            def count(self, **k): pass
            def outcome(self, *a, **k): pass
            def sample(self, *a, **k): pass
            def violation(self, v): self.v.append(v)
        a = A()
        run_large(a, case.get("tier", "quick"))
        return a.v
    b = bounds(case.get("tier", "thorough"))
    client, _ = world.make_client(creds(), lambda p: b"")
    w = PyWrapper(client)
    s = case["spec"]
    spec = (s[0], s[1], s[2], s[3], tuple(s[4]), s[5] if len(s) > 5 else 0)
    return run_table(spec, b, client, w)[0]


def meta(tier):
    b = bounds(tier)
    return {
        "level": "model_checking",
        "rule": "table OIDs 1.3.5 and 1.3.1 (the latter ends in .1 like its own entry); every table with 1..%d columns (column numbers 1, 2, 10) x 0..%d rows x every presence pattern of its cells x index shapes %r x neighbours (before, after) in %r; each fetched by Client.table(entry OID), Client.bulktable(table OID) with bulk sizes %r and (tables of <= %d cells) the two PyWrapper variants, all compared with the reference table view; an evaluation = one fetch; non-trivial = table with at least 2 cells; states = fetches, transitions = exchanges"
        % (b["max_cols"], b["max_rows"], b["shapes"], b["neighbours"], b["bulk"], b["py_max_cells"]),
        "exhaustive": True,
        "bounds": b,
        "assumptions": ["column number 0 excluded (reserved key)", "only the entry subtree lies below the table OID (as in every SMIv2 table)"],
    }
