"""
C04 - GET/GETNEXT/SET/GETBULK results are exactly the agent's answers, in order.

Small-scope enumeration: every OID list of length 1..3 over a menu (existing
instances, missing object, missing instance, object OID, before-first,
after-last; under v3 also a usmStats counter) x operation x protocol version,
with one response-perturbation choice point per execution (conformant /
extra binding for a further OID / last binding dropped / bulk: one more than
n+m*r / bulk: any shorter prefix).

Oracle: computed from the sorted database (independent three-line functions
below) and from the bindings the reference agent actually sent.
"""

from itertools import product

from .. import explore, ops, world
from ..clock import CLOCK
from ..ref import agent as ragent

PROPERTY = "C04"

DB = {
    (1, 3, 1, 1, 0): ("int", 7),
    (1, 3, 1, 2, 0): ("str", b"abc"),
    (1, 3, 1, 2, 1): ("c32", 4000000000),
    (1, 3, 1, 3, 0): ("oid", (1, 3, 6, 1)),
    (1, 3, 2, 1, 0): ("tt", 123456),
}
USM_OID = (1, 3, 6, 1, 6, 3, 15, 1, 1, 1, 0)
MENU = [
    (1, 3, 1, 1, 0),  # existing, first
    (1, 3, 1, 2, 0),  # existing, followed by a sibling instance
    (1, 3, 2, 1, 0),  # existing, last of the view (without the usm counter)
    (1, 3, 1, 9, 0),  # missing object
    (1, 3, 1, 1, 5),  # missing instance of a known object
    (1, 3, 1, 2),  # object OID (prefix of instances)
    (1, 2),  # before the first instance
    (1, 9),  # after the last instance
]
EXTRA = ((1, 9, 9, 9), ("int", 99))

SET_VALUES = [
    ("int", -5),
    ("str", b"new"),
    ("null", None),
    ("oid", (1, 3, 6, 1, 4)),
    ("ip", bytes([10, 0, 0, 1])),
    ("c32", 4294967295),
    ("g32", 2147483648),
    ("tt", 4294967295),
    ("opaque", b"\x01\x02"),
    ("c64", 2**64 - 1),
]
SET_OIDS = [(1, 3, 1, 2, 0), (1, 3, 1, 1, 0), (1, 3, 3, 1, 0)]

VERSIONS = {
    "quick": ["v2c", "v1", "v3:authPriv:md5"],
    "thorough": ["v2c", "v1", "v3:noAuthNoPriv:md5", "v3:authNoPriv:md5", "v3:authNoPriv:sha1", "v3:authPriv:md5", "v3:authPriv:sha1"],
}


# usmStatsUnsupportedSecLevels .. usmStatsDecryptionErrors: ordinary readable
# counters of every v3 agent (the very OIDs that Report PDUs carry)
USM_COUNTERS = [(1, 3, 6, 1, 6, 3, 15, 1, 1, k, 0) for k in range(1, 7)]


def db_for(version):
    db = dict(DB)
    if version.startswith("v3"):
        for k, o in enumerate(USM_COUNTERS):
            db[o] = ("c32", 3 + k)
    return db


def menu_for(version):
    return MENU + ([USM_OID] if version.startswith("v3") else [])


# ---- the sorted-map semantics of RFC 3416, written out independently ------


def succ(db, oid):
    later = sorted(o for o in db if o > oid)
    return later[0] if later else None


def missing_marker(db, oid):
    return ("nsi", None) if any(o[:-1] == oid[: len(o) - 1] and len(oid) >= len(o) - 1 for o in db) else ("nso", None)


# ---------------------------------------------------------------------------


class Env:
    def __init__(self, version):
        self.version = version
        self.db = db_for(version)
        if version == "v1":
            from puresnmp.credentials import V1

            self.agent = ragent.Agent(self.db)
            self.client, self.sender = world.make_client(V1("public"), self.agent.handle)
        elif version == "v2c":
            from puresnmp.credentials import V2C

            self.agent = ragent.Agent(self.db)
            self.client, self.sender = world.make_client(V2C("public"), self.agent.handle)
        else:
            _, level, method = version.split(":")
            self.client, self.sender, self.agent = world.make_v3(self.db, level, method)

    def reset(self):
        self.agent.db = dict(self.db)
        self.agent._resort()
        self.agent.log = []
        self.agent.response_hook = None
        self.sender.calls = []


def perturbations(op, nresp, maxbulk):
    """alternatives of the response perturbation for a response with nresp
    bindings; index 0 = conformant"""
    out = [("none",)]
    if op != "bulkget":
        out.append(("extra",))
        if nresp >= 1:
            out.append(("drop",))
    else:
        out.append(("overfull",))
        for k in range(0, nresp):
            out.append(("prefix", k))
    return out


def make_run(env, op):
    name = op[0]
    v1 = env.version == "v1"

    def run(ctx):
        env.reset()
        CLOCK.reset()
        world.reset_plugins()
        state = {}

        def hook(agent, req, resp):
            vbs = list(resp["varbinds"])
            if resp["es"]:
                state["pert"] = ("none",)
                return resp
            maxbulk = None
            if name == "bulkget":
                n = min(req["f1"], len(req["varbinds"]))
                maxbulk = n + max(req["f2"], 0) * (len(req["varbinds"]) - n)
            menu = perturbations(name, len(vbs), maxbulk)
            k = ctx.choose(len(menu), "perturb")
            p = menu[k]
            state["pert"] = p
            if p[0] == "extra":
                vbs.append(EXTRA)
            elif p[0] == "drop":
                vbs.pop()
            elif p[0] == "overfull":
                i = 0
                while len(vbs) <= maxbulk:
                    vbs.append(((1, 9, 9, 9, i), ("int", i)))
                    i += 1
            elif p[0] == "prefix":
                vbs = vbs[: p[1]]
            resp = dict(resp)
            resp["varbinds"] = vbs
            return resp

        env.agent.response_hook = hook
        result, exc = ops.run_op(env.client, op)
        entry = [e for e in env.agent.log if e.get("verdict") == "ok"]
        violations = judge(env, op, result, exc, entry[-1] if entry else None, state.get("pert", ("none",)))
        obs = (ops.exc_sig(exc), result)
        return obs, violations

    return run


def judge(env, op, result, exc, entry, pert):
    name = op[0]
    db = env.db
    v1 = env.version == "v1"
    ename = ops.exc_sig(exc)
    out = []
    facts = {"op": list(op), "version": env.version, "perturbation": list(pert), "exception": ename,
             "sent_bindings": entry["response"]["varbinds"] if entry and "response" in entry else None}

    def bad(kind, **detail):
        out.append({"kind": kind, "detail": {**facts, **detail, "result": result, "message": str(exc)[:200] if exc else None}, "facts": facts})

    world.v3_auth_facts(facts, exc, env.agent)
    if entry is None or "response" not in entry:
        bad("request-not-accepted-by-agent", verdicts=[e.get("verdict") for e in env.agent.log])
        return out
    req = entry["pdu"] if "pdu" in entry else entry["msg"]["pdu"]
    sent = entry["response"]["varbinds"]
    es = entry["response"]["es"]
    from puresnmp.exc import SnmpError

    # ---------------- perturbed answers ---------------------------------
    if pert[0] in ("extra", "drop", "overfull"):
        if not isinstance(exc, SnmpError) or ename in ("InvalidResponseId",):
            bad("miscounted-response-not-refused")
        return out
    # ---------------- error responses (v1 noSuchName) -------------------
    if es:
        if ename != "NoSuchOID":
            bad("v1-nosuchname-not-raised")
        return out
    # ---------------- conformant / shorter-bulk answers ------------------
    if name in ("get", "multiget"):
        oids = [op[1]] if name == "get" else list(op[1])
        expected = [db[o] if o in db else missing_marker(db, o) for o in oids]
        facts["expected"] = expected
        if [v for _, v in sent] != expected or [o for o, _ in sent] != oids:
            bad("reference-agent-disagrees-with-model")
        if name == "get":
            if expected[0][0] in ("nso", "nsi"):
                if ename != "NoSuchOID":
                    bad("missing-object-not-raised")
            elif exc is not None or result != expected[0]:
                bad("wrong-get-result")
        else:
            if exc is not None or list(result) != expected:
                bad("wrong-multiget-result")
    elif name in ("getnext", "multigetnext"):
        oids = [op[1]] if name == "getnext" else list(op[1])
        expected = []
        for o in oids:
            s = succ(db, o)
            expected.append((s, db[s]) if s is not None else None)
        facts["expected"] = expected
        agent_view = [(o, v) if v != ragent.EOMV else None for o, v in sent]
        if agent_view != expected:
            bad("reference-agent-disagrees-with-model")
        if name == "getnext":
            if expected[0] is None:
                if ename != "NoSuchOID":
                    bad("end-of-view-not-raised")
            elif exc is not None or result != expected[0]:
                bad("wrong-getnext-result")
        else:
            if exc is not None:
                bad("multigetnext-raised")
            else:
                got = list(result)
                want = [e for e in expected if e is not None]
                facts["eomv_before_successor"] = any(e is None and any(x is not None for x in expected[i + 1:]) for i, e in enumerate(expected))
                # order-preserving, nothing invented
                it = iter(want)
                if not all(any(g == w for w in it) for g in got):
                    bad("successor-invented-or-reordered")
                elif len(got) != len(want):
                    bad("successor-missing", missing=[w for w in want if w not in got])
    elif name in ("set", "multiset"):
        pairs = [(op[1], op[2])] if name == "set" else list(op[1])
        if [(o, v) for o, v in req["varbinds"]] != pairs:
            bad("set-delivered-other-values", delivered=req["varbinds"])
        if name == "set":
            if exc is not None or result != pairs[0][1]:
                bad("wrong-set-result")
        elif exc is not None or list(result) != list(dict(pairs).items()):
            bad("wrong-multiset-result")
    elif name == "bulkget":
        n = len(op[1])
        if exc is not None:
            bad("bulkget-raised")
            return out
        scalars = dict(result)["scalars"]
        listing = dict(result)["listing"]
        exp_scalars = tuple(dict(sent[:n]).items())
        if tuple(scalars) != exp_scalars:
            bad("wrong-bulk-scalars", expected=exp_scalars)
        rest = sent[n:]
        cut = next((i for i, (_, v) in enumerate(rest) if v == ragent.EOMV), len(rest))
        ok = any(tuple(dict(rest[:k]).items()) == tuple(listing) for k in range(cut, len(rest) + 1))
        if not ok:
            bad("wrong-bulk-listing", expected_prefix=rest[:cut])
        if pert[0] == "none":
            # conformant full answer: check the agent against the model
            nn = min(n, len(req["varbinds"]))
            heads = []
            for o, _ in req["varbinds"][:nn]:
                s = succ(db, o)
                heads.append((s, db[s]) if s is not None else (o, ragent.EOMV))
            if sent[:nn] != heads:
                bad("reference-agent-disagrees-with-model")
    return out


def cases(version, tier):
    menu = menu_for(version)
    maxlen = 3
    out = []
    for L in range(1, maxlen + 1):
        for oids in product(menu, repeat=L):
            if L == 3 and tier == "quick" and version != "v2c":
                # quick: triples only for v2c
                continue
            out.append(("multiget", list(oids)))
            out.append(("multigetnext", list(oids)))
            if L == 1:
                out.append(("get", oids[0]))
                out.append(("getnext", oids[0]))
            if version != "v1" and (L <= 2 or (tier == "thorough" and version == "v2c")):
                for n in range(0, L + 1):
                    for m in (0, 1, 2, 3):
                        out.append(("bulkget", list(oids[:n]), list(oids[n:]), m))
    # long lists (answers with more bindings than any fixed small number)
    out.append(("multiget", list(menu) * 5))
    out.append(("multigetnext", list(MENU[:6]) * 7))
    if version != "v1":
        out.append(("bulkget", list(MENU[:3]), list(MENU[:2]), 40))
    if version.startswith("v3"):
        # every usmStats counter through every read operation
        group = USM_COUNTERS[0][:-2]
        for o in USM_COUNTERS[1:]:
            out.append(("get", o))
            out.append(("getnext", o[:-1]))
            out.append(("multiget", [MENU[0], o]))
            out.append(("multigetnext", [o[:-1], MENU[0]]))
            out.append(("bulkget", [o[:-1]], [], 0))
        out.append(("multiget", list(USM_COUNTERS)))
        out.append(("bulkget", [], [group], 3))
        out.append(("bulkget", [], [group, MENU[0]], 3))
    for o in SET_OIDS:
        for v in SET_VALUES:
            out.append(("set", o, v))
    for (o1, o2) in [(SET_OIDS[0], SET_OIDS[1]), (SET_OIDS[2], SET_OIDS[0])]:
        for v1, v2 in product(SET_VALUES, repeat=2):
            if tier == "quick" and SET_VALUES.index(v1) % 3 != SET_VALUES.index(v2) % 3:
                continue
            out.append(("multiset", [(o1, v1), (o2, v2)]))
    return out


def shards(tier):
    out = []
    for version in VERSIONS[tier]:
        cs = cases(version, tier)
        n = 24 if len(cs) > 5000 else 8
        for i in range(n):
            out.append({"version": version, "tier": tier, "part": i, "of": n})
    return out


def run_shard(params, acc):
    env = Env(params["version"])
    cs = cases(params["version"], params["tier"])[params["part"] :: params["of"]]
    for op in cs:
        run = make_run(env, op)

        def on_exec(ctx, obs, violations, op=op):
            acc.count(evaluations=1, nontrivial=1, traces=1)
            acc.outcome("%s/%s" % (op[0], obs[0]))
            acc.sample({"version": params["version"], "op": op, "choices": list(ctx.choices), "outcome": obs[0], "result": obs[1]}, interesting=bool(any(ctx.choices)))

        stats, found = explore.explore(run, bound=1, on_exec=on_exec, double_every=400)
        acc.count(evaluations=0, states=stats.nodes + stats.executions, transitions=stats.transitions + stats.executions)
        acc.bump("double_runs", stats.double_runs)
        for choices, v in found:
            v = dict(v)
            v["case"] = {"version": params["version"], "op": op, "choices": list(choices)}
            acc.violation(v)


def _tuplify(op):
    def t(x):
        if isinstance(x, list):
            return [t(i) for i in x]
        return x

    # OIDs and (kind, value) pairs come back from JSON as lists
    name = op[0]
    def oid(o):
        return tuple(o)
    def val(v):
        k, x = v
        if k == "oid":
            x = tuple(x)
        return (k, x)
    if name in ("get", "getnext"):
        return (name, oid(op[1]))
    if name in ("multiget", "multigetnext"):
        return (name, [oid(o) for o in op[1]])
    if name == "set":
        return (name, oid(op[1]), val(op[2]))
    if name == "multiset":
        return (name, [(oid(o), val(v)) for o, v in op[1]])
    if name == "bulkget":
        return (name, [oid(o) for o in op[1]], [oid(o) for o in op[2]], op[3])
    raise world.HarnessError(name)


def replay(case):
    env = Env(case["version"])
    run = make_run(env, _tuplify(case["op"]))
    _, obs, violations = explore.run_once(run, case["choices"])
    return violations


def meta(tier):
    return {
        "level": "model_checking",
        "rule": "one choice tree per (protocol version, operation instance): operation instances = every OID list of length 1..3 over a %d-OID menu (existing / missing object / missing instance / object OID / before first / after last, plus a usmStats counter under v3) for get, getnext, multiget, multigetnext and bulkget with every non-repeater split and max-repetitions 0..3, plus set/multiset of all 10 value types; one perturbation choice per response (conformant, extra binding, dropped binding, overfull bulk, every shorter bulk prefix); versions %r; states = decision nodes + executions, transitions = decisions + exchanges"
        % (len(MENU), VERSIONS[tier]),
        "exhaustive": True,
        "bounds": {"max_list": 3, "max_repetitions": [0, 1, 2, 3], "versions": VERSIONS[tier], "perturbations_per_execution": 1},
        "assumptions": ["database and OID menu fixed by boundary analysis", "the listing of bulkget is a dict: duplicate OIDs collapse (accepted)", "listing may stop at the first endOfMibView (accepted)"],
    }
