"""
Conformance pass for the fake datagram transport of C19: the same datagram
sequences are sent over real loopback UDP sockets (IPv4 and, where available,
IPv6) to a listener registered through the real ``register_trap_callback`` on
the stock asyncio selector loop.  Runs in its own process (no virtual clock).

    python -m vmc.loopback_c19 <repo src>  < JSON {"sequences": [[{"hex":..., "family": 4|6}, ...], ...]}
    -> JSON on stdout

Reported per sequence: for every delivery the request-id of the delivered
PDU, the source (address, port) the library attached and whether it equals the
address of the socket that sent the datagram; whether the listener survived.
"""

import asyncio
import json
import socket
import sys


def free_port(family):
    s = socket.socket(family, socket.SOCK_DGRAM)
    s.bind(("127.0.0.1" if family == socket.AF_INET else "::1", 0))
    port = s.getsockname()[1]
    s.close()
    return port


def run_sequence(seq):
    from puresnmp.api.raw import register_trap_callback
    from puresnmp.credentials import V2C

    families = sorted({d["family"] for d in seq})
    out = {"deliveries": [], "errors": 0}
    loop = asyncio.new_event_loop()
    asyncio.set_event_loop(loop)
    loop.set_exception_handler(lambda _l, _c: out.__setitem__("errors", out["errors"] + 1))
    delivered = []

    async def callback(pdu):
        src = getattr(pdu, "source", None)
        delivered.append((pdu.value.request_id, (src.address, src.port) if src is not None else None))

    ports = {}
    senders = {}
    for fam in families:
        af = socket.AF_INET if fam == 4 else socket.AF_INET6
        host = "127.0.0.1" if fam == 4 else "::1"
        ports[fam] = free_port(af)
        register_trap_callback(callback, listen_address=host, port=ports[fam], credentials=V2C("public"), loop=loop)
        s = socket.socket(af, socket.SOCK_DGRAM)
        s.bind((host, 0))
        senders[fam] = s

    async def play():
        for d in seq:
            fam = d["family"]
            senders[fam].sendto(bytes.fromhex(d["hex"]), ("127.0.0.1" if fam == 4 else "::1", ports[fam]))
            await asyncio.sleep(0.03)
        await asyncio.sleep(0.1)

    loop.run_until_complete(play())
    origin = {fam: tuple(s.getsockname()[:2]) for fam, s in senders.items()}
    for rid, src in delivered:
        out["deliveries"].append({"request_id": rid, "source": list(src) if src else None, "source_is_a_sender": src in origin.values()})
    for s in senders.values():
        s.close()
    for task in asyncio.all_tasks(loop):
        task.cancel()
    loop.run_until_complete(asyncio.sleep(0))
    loop.close()
    return out


def main():
    sys.path.insert(0, sys.argv[1])
    import warnings

    warnings.simplefilter("ignore")
    doc = json.load(sys.stdin)
    results = []
    have6 = socket.has_ipv6
    if have6:
        try:
            free_port(socket.AF_INET6)
        except OSError:
            have6 = False
    try:
        for seq in doc["sequences"]:
            if any(d["family"] == 6 for d in seq) and not have6:
                results.append({"skipped": "no IPv6 loopback"})
                continue
            results.append(run_sequence(seq))
    except OSError as exc:
        print(json.dumps({"skipped": "loopback sockets unavailable: %r" % exc}))
        return 0
    print(json.dumps({"results": results, "ipv6": have6}))
    return 0


if __name__ == "__main__":
    sys.exit(main())
