"""
Explicit-state breadth-first search over event histories.

A state is identified with an event history that reaches it: ``build(hist)``
creates a fresh real system and replays the events (live objects rarely copy).
``canon(system)`` projects the system onto the fields that determine its
future behaviour; histories with equal canon are merged.  ``step(system,
event)`` applies one more event to a built system and returns the list of
violations the oracle found for that transition.
"""

import collections


class Result:
    def __init__(self):
        self.states = 0
        self.transitions = 0
        self.max_depth = 0
        self.violations = []  # (history, event, violation)
        self.capped = False
        self.by_depth = collections.Counter()


def bfs(build, enabled, step, canon, max_depth, max_states=None, on_transition=None, roots=((),), probe=None, dispose=None):
    res = Result()
    seen = set()
    frontier = collections.deque()
    for r in roots:
        sysm = build(tuple(r))
        k = canon(sysm)
        if k not in seen:
            seen.add(k)
            frontier.append(tuple(r))
            res.by_depth[len(r)] += 1
            if probe is not None:
                for v in probe(sysm, tuple(r)):
                    res.violations.append((tuple(r), ("probe",), v))
        if dispose is not None:
            dispose(sysm)
    while frontier:
        hist = frontier.popleft()
        depth = len(hist)
        res.max_depth = max(res.max_depth, depth)
        if depth >= max_depth:
            continue
        base = build(hist)
        events = list(enabled(base))
        if dispose is not None:
            dispose(base)
        for ev in events:
            sysm = build(hist)
            violations = step(sysm, ev)
            res.transitions += 1
            if on_transition is not None:
                on_transition(hist, ev, sysm, violations)
            for v in violations:
                res.violations.append((hist, ev, v))
            k = canon(sysm)
            if k not in seen:
                if max_states is not None and len(seen) >= max_states:
                    res.capped = True
                    continue
                seen.add(k)
                frontier.append(hist + (ev,))
                res.by_depth[depth + 1] += 1
                if probe is not None:
                    # the oracle is evaluated in every new state; the probe
                    # runs on this throw-away copy of the system
                    for v in probe(sysm, hist + (ev,)):
                        res.violations.append((hist + (ev,), ("probe",), v))
            if dispose is not None:
                dispose(sysm)
    res.states = len(seen)
    return res
