"""
Known findings: genuine defects of puresnmp that are recorded rather than
repaired.  ``known_findings.json`` (committed, never written at run time) lists
them; each open finding names a *signature* — a predicate over a violation
record that only looks at facts computed by the reference side (``facts``) and
at the oracle clause that failed (``kind``).  A violation matching no open
signature is reported as a VIOLATION.  ``fixed`` entries suppress nothing.
"""

import json
import os

_PATH = os.path.join(os.path.dirname(os.path.dirname(os.path.abspath(__file__))), "known_findings.json")
_cache = None


def _load():
    global _cache
    if _cache is None:
        with open(_PATH) as fh:
            doc = json.load(fh)
        _cache = {f["id"]: f for f in doc.get("open", [])}
    return _cache


def get(fid):
    return _load()[fid]


# signature name -> predicate(violation dict) -> bool
SIGNATURES = {}


def signature(name):
    def deco(fn):
        SIGNATURES[name] = fn
        return fn

    return deco


def classify(pid, v):
    for fid, f in _load().items():
        if pid != f.get("property") and pid not in f.get("properties", ()):
            continue
        pred = SIGNATURES.get(f["signature"])
        if pred is None:
            raise RuntimeError("known finding %s names unknown signature %s" % (fid, f["signature"]))
        if pred(v):
            return fid
    return None


# ---------------------------------------------------------------------------
# signatures (narrow by construction: triggering condition from the reference
# side AND the one oracle clause it explains)
# ---------------------------------------------------------------------------


@signature("multigetnext-eomv-before-successor")
def _sig_multigetnext_cut(v):
    f = v.get("facts", {})
    return (
        v.get("kind") == "successor-missing"
        and f.get("op", [None])[0] == "multigetnext"
        and f.get("eomv_before_successor") is True
        and f.get("perturbation", ["none"])[0] == "none"
    )


@signature("x690-indefinite-length-loop")
def _sig_x690_loop(v):
    f = v.get("facts", {})
    if f.get("indefinite_length_octet") is not True:
        return False
    if v.get("kind") == "processing-exceeds-cpu-budget":
        return f.get("in_x690") is True
    # the same walk over an indefinite length that does terminate (with an
    # IndexError / RecursionError) allocates megabytes on the way
    return v.get("kind") == "allocation-exceeds-memory-budget" and f.get("outcome") in ("IndexError", "RecursionError", "X690Error", "handled")
