"""
Loop-free driver: when the sender answers immediately nothing in puresnmp ever
suspends, so coroutines and async generators can be run to completion by hand.
A suspension is a hard harness error.
"""


class HarnessError(Exception):
    """The harness itself is broken (never reported as a violation)."""


def run(coro):
    try:
        coro.send(None)
    except StopIteration as stop:
        return stop.value
    else:
        coro.close()
        raise HarnessError("coroutine suspended under the loop-free driver")


def drain(agen, limit=None):
    """Collect an async generator.  Returns (items, exception or None)."""
    items = []
    try:
        while True:
            try:
                items.append(run(agen.__anext__()))
            except StopAsyncIteration:
                return items, None
            if limit is not None and len(items) > limit:
                raise HarnessError("async generator exceeded %d items" % limit)
    except HarnessError:
        raise
    except BaseException as exc:  # noqa
        if isinstance(exc, (KeyboardInterrupt, SystemExit)):
            raise
        return items, exc
    finally:
        try:
            run(agen.aclose())
        except BaseException:
            pass
