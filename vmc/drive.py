"""
Driver for the sequential harnesses: runs a coroutine (or drains an async
generator) of the library to completion on a private virtual-time event loop.

With the harness' senders answering immediately nothing in puresnmp suspends
today, but an implementation is free to use tasks, futures or sleeps
internally; running on a real (virtual-time) loop keeps the harnesses valid for
such implementations.  A coroutine that cannot finish - every sender of these
harnesses answers at once and an hour of virtual time has been let pass for
the library's own timers - waits for something nobody will provide: the
library has dead-locked itself.  That is an outcome of the code under test
(``NeverCompletes``), to be judged like any other outcome, not a harness error.
"""


class HarnessError(Exception):
    """The harness itself is broken (never reported as a violation)."""


class ScenarioUnavailable(Exception):
    """A scenario needs a plain, conformant exchange to succeed first (a
    warm-up request, the authentic exchange that is then tampered with) and
    that exchange fails on this tree.  The property at hand says nothing about
    that (others do); the scenario is skipped and the evidence says so."""


class NeverCompletes(Exception):
    """The operation is still pending although nothing it could wait for is
    outstanding (the environment has answered everything, timers have run)."""


_LOOP = None


def _loop():
    global _LOOP
    if _LOOP is None or _LOOP.is_closed():
        from .vloop import VLoop

        _LOOP = VLoop()
    return _LOOP


def run(coro):
    from .clock import CLOCK
    from .vloop import Stalled

    loop = _loop()
    with loop.running():
        task = loop.create_task(coro)
        try:
            loop.run_ready()
            if not task.done():
                # timers (sleeps, timeouts) of the library: let virtual time pass
                try:
                    loop.run_until_idle(horizon=CLOCK.mono + 3600)
                except Stalled:
                    pass
        finally:
            if not task.done():
                task.cancel()
                try:
                    loop.run_ready()
                except Exception:  # noqa
                    pass
                del loop.logged[:]
                raise NeverCompletes("the operation waits for something nobody will provide (environment idle, no timer left)")
    del loop.logged[:]
    if task.cancelled():
        raise HarnessError("coroutine was cancelled")
    exc = task.exception()
    if exc is not None:
        raise exc
    return task.result()


async def _anext(agen):
    return await agen.__anext__()


async def _aclose(agen):
    await agen.aclose()


def drain(agen, limit=None):
    """Collect an async generator.  Returns (items, exception or None)."""
    items = []
    try:
        while True:
            try:
                items.append(run(_anext(agen)))
            except StopAsyncIteration:
                return items, None
            if limit is not None and len(items) > limit:
                raise HarnessError("async generator exceeded %d items" % limit)
    except HarnessError:
        raise
    except BaseException as exc:  # noqa
        if isinstance(exc, (KeyboardInterrupt, SystemExit)):
            raise
        return items, exc
    finally:
        try:
            run(_aclose(agen))
        except BaseException:  # noqa
            pass
