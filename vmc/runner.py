"""
Runner: CLI, tiers, seeds, worker pool, evidence files, VIOLATION /
KNOWN-FINDING lines.

    bin/check C07 [--tier quick|thorough] [--replay FILE] [--jobs N]

Exit codes: 0 property held on everything explored (known findings are
reported as KNOWN-FINDING lines), 1 violation (VIOLATION line on stdout),
2 harness error (nondeterminism, reference self-test failure, ...).
"""

import argparse
import hashlib
import importlib
import json
import os
import random
import sys
import time
import traceback

VERIF = os.path.dirname(os.path.dirname(os.path.abspath(__file__)))
REAL_TIME = time.time

MAX_REPLAYS = 10


def _reexec_with_hashseed():
    if os.environ.get("PYTHONHASHSEED") != "0":
        os.environ["PYTHONHASHSEED"] = "0"
        os.execv(sys.executable, [sys.executable] + sys.argv)


# ---------------------------------------------------------------------------
# worker side
# ---------------------------------------------------------------------------


class Acc:
    """Accumulates what one shard covered (runs inside a worker)."""

    MAX_UNKNOWN = 40
    MAX_KNOWN_EXAMPLES = 3

    def __init__(self, pid):
        self.pid = pid
        self.evaluations = 0
        self.nontrivial = 0
        self.states = 0
        self.transitions = 0
        self.traces = 0
        self.samples = []
        self.unknown = []  # violations matching no known finding
        self.unknown_total = 0
        self.known = {}  # finding id -> count
        self.known_examples = {}
        self.extra = {}
        self.outcomes = {}

    def count(self, evaluations=1, nontrivial=0, states=0, transitions=0, traces=0):
        self.evaluations += evaluations
        self.nontrivial += nontrivial
        self.states += states
        self.transitions += transitions
        self.traces += traces

    def outcome(self, key, n=1):
        self.outcomes[key] = self.outcomes.get(key, 0) + n

    def sample(self, case, interesting=False, limit=2):
        if interesting and (len(self.samples) >= limit or not self.samples):
            if not self.extra.get("_isample", 0) >= limit:
                self.samples.insert(0, case)
                del self.samples[limit:]
                self.extra["_isample"] = self.extra.get("_isample", 0) + 1
        elif len(self.samples) < limit:
            self.samples.append(case)

    def bump(self, key, n=1):
        self.extra[key] = self.extra.get(key, 0) + n

    def maxi(self, key, v):
        self.extra[key] = max(self.extra.get(key, v), v)

    def violation(self, v):
        """v: dict(kind=..., case=..., detail=..., facts={...})"""
        from . import findings

        if getattr(self, "lib_log", None) and isinstance(v.get("case"), dict):
            v["case"].setdefault("lib_log", self.lib_log)
        fid = findings.classify(self.pid, v)
        if fid is None:
            self.unknown_total += 1
            self.extra.setdefault("_kinds", {})
            self.extra["_kinds"][v.get("kind")] = self.extra["_kinds"].get(v.get("kind"), 0) + 1
            if len(self.unknown) < self.MAX_UNKNOWN:
                self.unknown.append(v)
        else:
            self.known[fid] = self.known.get(fid, 0) + 1
            ex = self.known_examples.setdefault(fid, [])
            if len(ex) < self.MAX_KNOWN_EXAMPLES:
                ex.append(v)

    def result(self):
        return self.__dict__


def _worker_init():
    from . import world

    world.setup()


from .drive import ScenarioUnavailable  # noqa: E402


def _worker_run(args):
    modname, params = args
    try:
        mod = importlib.import_module(modname)
        acc = Acc(mod.PROPERTY)
        t0 = REAL_TIME()
        acc.lib_log = params.get("lib_log")
        if acc.lib_log:
            from . import world

            world.set_lib_log_level(acc.lib_log)
        try:
            mod.run_shard(params, acc)
        except ScenarioUnavailable as exc:
            acc.bump("scenarios_not_prepared", 1)
            acc.extra.setdefault("scenarios_not_prepared_examples", [])
            if len(acc.extra["scenarios_not_prepared_examples"]) < 3:
                acc.extra["scenarios_not_prepared_examples"].append("%s: %s" % (params, str(exc)[:200]))
        finally:
            if acc.lib_log:
                world.set_lib_log_level(None)
                acc.bump("shards_with_library_logging_at_" + acc.lib_log, 1)
        res = acc.result()
        res["shard_wall"] = round(REAL_TIME() - t0, 2)
        from . import explore

        res["deferred_divergences"] = list(explore.DEFERRED[:5])
        res["deferred_divergences_n"] = len(explore.DEFERRED)
        del explore.DEFERRED[:]
        return ("ok", res)
    except BaseException as exc:  # noqa
        return ("error", "%s\n%s" % (params, traceback.format_exc()))


# ---------------------------------------------------------------------------
# parent side
# ---------------------------------------------------------------------------


def jsonable(x):
    if isinstance(x, (bytes, bytearray)):
        return "hex:" + bytes(x).hex()
    if isinstance(x, dict):
        return {str(k): jsonable(v) for k, v in x.items()}
    if isinstance(x, (list, tuple, set, frozenset)):
        return [jsonable(v) for v in x]
    if isinstance(x, (str, int, float, bool)) or x is None:
        return x
    return repr(x)


def unjson(x):
    """inverse of jsonable for the parts replays need (hex strings, lists)"""
    if isinstance(x, str) and x.startswith("hex:"):
        return bytes.fromhex(x[4:])
    if isinstance(x, list):
        return [unjson(v) for v in x]
    if isinstance(x, dict):
        return {k: unjson(v) for k, v in x.items()}
    return x


def write_replay(pid, modname, v):
    blob = json.dumps(jsonable(v), sort_keys=True)
    h = hashlib.sha1(blob.encode()).hexdigest()[:12]
    path = os.path.join(VERIF, "replays", "%s-%s.json" % (pid, h))
    os.makedirs(os.path.dirname(path), exist_ok=True)
    with open(path, "w") as fh:
        json.dump(
            {"property": pid, "check": modname, "violation": jsonable(v)},
            fh,
            indent=1,
            sort_keys=True,
        )
    return path


def run_check(pid, tier, seed, jobs):
    # NB: the parent never installs the virtual clock nor imports puresnmp
    # (multiprocessing's own time-outs need the real clock): shards() must not
    # touch the library
    modname = "vmc.checks.%s" % pid.lower()
    mod = importlib.import_module(modname)
    t0 = REAL_TIME()
    shards = list(mod.shards(tier))
    if "puresnmp" in sys.modules:
        print("HARNESS-ERROR property=%s shards() imported puresnmp in the parent process" % pid, file=sys.stderr)
        return 2
    order = list(range(len(shards)))
    random.Random(seed).shuffle(order)
    results = [None] * len(shards)
    errors = []
    if jobs <= 1 or len(shards) <= 1:
        _worker_init()
        for i in order:
            status, res = _worker_run((modname, shards[i]))
            if status == "error":
                errors.append(res)
                break
            results[i] = res
    else:
        import multiprocessing as mp

        import time as _t
        from concurrent.futures import ProcessPoolExecutor
        from concurrent.futures import TimeoutError as _FutTimeout
        from concurrent.futures.process import BrokenProcessPool

        ctx = mp.get_context("fork")
        max_wall = int(os.environ.get("VERIF_MAX_WALL", "10800"))
        deadline = _t.monotonic() + max_wall
        ex = ProcessPoolExecutor(max_workers=min(jobs, len(shards)), mp_context=ctx, initializer=_worker_init)
        try:
            work = [(modname, shards[i]) for i in order]
            futs = [ex.submit(_worker_run, w) for w in work]
            for i, f in zip(order, futs):
                try:
                    status, res = f.result(timeout=max(1.0, deadline - _t.monotonic()))
                except BrokenProcessPool:
                    errors.append("a worker process died (killed or crashed) while the shards were running; first unfinished shard: %r" % (shards[i],))
                    break
                except _FutTimeout:
                    errors.append("no result within VERIF_MAX_WALL=%d s (a worker is stuck); waiting for shard %r" % (max_wall, shards[i]))
                    break
                if status == "error":
                    errors.append(res)
                    break
                results[i] = res
        finally:
            if errors:
                for proc in list(getattr(ex, "_processes", {}).values()):
                    try:
                        proc.kill()
                    except Exception:  # noqa
                        pass
                ex.shutdown(wait=False, cancel_futures=True)
            else:
                ex.shutdown(wait=True)
    if errors:
        print("HARNESS-ERROR property=%s\n%s" % (pid, errors[0]), file=sys.stderr)
        return 2

    regressions = run_regressions(pid)

    # merge in shard order: verdict and counts do not depend on scheduling
    tot = Acc(pid)
    for res in results:
        tot.evaluations += res["evaluations"]
        tot.nontrivial += res["nontrivial"]
        tot.states += res["states"]
        tot.transitions += res["transitions"]
        tot.traces += res["traces"]
        tot.unknown_total += res["unknown_total"]
        tot.unknown.extend(res["unknown"])
        for k, v in res["known"].items():
            tot.known[k] = tot.known.get(k, 0) + v
        for k, v in res["known_examples"].items():
            tot.known_examples.setdefault(k, []).extend(v)
        for k, v in res["outcomes"].items():
            tot.outcomes[k] = tot.outcomes.get(k, 0) + v
        for k, v in res["extra"].items():
            if k.startswith("max_"):
                tot.extra[k] = max(tot.extra.get(k, v), v)
            elif isinstance(v, (int, float)):
                tot.extra[k] = tot.extra.get(k, 0) + v
            elif k == "_kinds":
                for kk, n in v.items():
                    tot.extra.setdefault(k, {})
                    tot.extra[k][kk] = tot.extra[k].get(kk, 0) + n
            elif isinstance(v, dict):
                tot.extra.setdefault(k, {}).update(v)
            else:
                tot.extra[k] = v
    # samples: seed selects which shards contribute
    rnd = random.Random(seed)
    with_samples = [r for r in results if r["samples"]]
    rnd.shuffle(with_samples)
    samples = []
    for r in with_samples[:3]:
        samples.extend(r["samples"][:1])

    from . import findings

    meta = mod.meta(tier)
    wall = REAL_TIME() - t0
    level = meta["level"]
    coverage = {
        "evaluations": tot.evaluations,
        "distinct_nontrivial": tot.nontrivial,
        "rule": meta["rule"],
        "samples": jsonable(samples),
        "exhaustive": bool(meta.get("exhaustive", False)) and not tot.extra.get("capped"),
        "bounds": meta.get("bounds", {}),
        "distinct_outcomes": len(tot.outcomes),
        "outcomes": {str(k): v for k, v in sorted(tot.outcomes.items(), key=lambda kv: -kv[1])[:25]},
        "known_findings_seen": {k: v for k, v in sorted(tot.known.items())},
        "shards": len(shards),
        "slowest_shards": [
            {"shard": jsonable(shards[i]), "wall_s": results[i].get("shard_wall")}
            for i in sorted(range(len(shards)), key=lambda i: -(results[i].get("shard_wall") or 0))[:3]
        ],
        "regression_replays": regressions["replayed"],
    }
    if level == "model_checking":
        coverage["states"] = tot.states
        coverage["transitions"] = tot.transitions
        coverage["traces_validated_against_impl"] = tot.traces
    for k, v in sorted(tot.extra.items()):
        if not k.startswith("_"):
            coverage.setdefault(k, v)
    ndiv = sum(res.get("deferred_divergences_n", 0) for res in results)
    if ndiv:
        coverage["executions_that_depended_on_process_history"] = ndiv
    evidence = {
        "property_id": pid,
        "tier": tier,
        "seed": seed,
        "level": level,
        "coverage": coverage,
        "assumptions": meta.get("assumptions", []),
        "wall_s": round(wall, 2),
        "violations": tot.unknown_total + len(regressions["failed"]),
    }
    os.makedirs(os.path.join(VERIF, "evidence"), exist_ok=True)
    with open(os.path.join(VERIF, "evidence", "%s.json" % pid), "w") as fh:
        json.dump(evidence, fh, indent=1, sort_keys=True)
        fh.write("\n")

    print(
        "%s tier=%s evaluations=%d nontrivial=%d states=%d transitions=%d "
        "outcomes=%d wall=%.1fs"
        % (
            pid,
            tier,
            tot.evaluations,
            tot.nontrivial,
            tot.states,
            tot.transitions,
            len(tot.outcomes),
            wall,
        )
    )
    for fid, n in sorted(tot.known.items()):
        f = findings.get(fid)
        print(
            "KNOWN-FINDING: property=%s %s [%s, %d cases this run]"
            % (pid, f["what"], fid, n)
        )
    for path, again in regressions["failed"]:
        print("VIOLATION property=%s replay=%s" % (pid, path))
        print("  regression of a recorded counterexample: %s" % json.dumps(jsonable(again[0].get("detail")))[:600])
    if tot.unknown_total:
        seen = set()
        for v in tot.unknown:
            path = write_replay(pid, modname, v)
            if path in seen:
                continue
            seen.add(path)
            if len(seen) > MAX_REPLAYS:
                break
            print("VIOLATION property=%s replay=%s" % (pid, path))
            print("  %s: %s" % (v.get("kind"), json.dumps(jsonable(v.get("detail")))[:600]))
        print("%s: violation kinds: %s" % (pid, json.dumps(tot.extra.get("_kinds", {}), sort_keys=True)))
        print(
            "%s: %d violating cases in total (%d replay files written)"
            % (pid, tot.unknown_total, min(len(seen), MAX_REPLAYS))
        )
        return 1
    if regressions["failed"]:
        return 1
    deferred = [d for res in results for d in res.get("deferred_divergences", [])]
    if deferred:
        # no violation anywhere in the run: the divergences are the harness' own
        print("HARNESS-ERROR property=%s %d executions depended on what ran before them in the same process and nothing violated the oracle; first: %s" % (pid, sum(res.get("deferred_divergences_n", 0) for res in results), deferred[0]), file=sys.stderr)
        return 2
    if tot.evaluations == 0:
        print("HARNESS-ERROR property=%s nothing explored" % pid, file=sys.stderr)
        return 2
    return 0


def _replay_case(mod, case):
    from . import world

    level = case.get("lib_log") if isinstance(case, dict) else None
    if level:
        world.set_lib_log_level(level)
    try:
        return mod.replay(case)
    finally:
        if level:
            world.set_lib_log_level(None)


def run_regressions(pid):
    """Replay the committed counterexamples of repaired defects
    (/verif/regressions/<ID>-*.json, same format as replay files)."""
    import glob

    from . import findings, world

    world.setup()
    out = {"replayed": 0, "failed": []}
    for path in sorted(glob.glob(os.path.join(VERIF, "regressions", "%s-*.json" % pid))):
        with open(path) as fh:
            doc = json.load(fh)
        mod = importlib.import_module(doc["check"])
        case = unjson(doc["violation"])["case"]
        again = _replay_case(mod, case)
        out["replayed"] += 1
        again = [a for a in again or [] if findings.classify(pid, a) is None]
        if again:
            out["failed"].append((path, again))
    return out


def run_replay(pid, path):
    from . import world

    world.setup()
    with open(path) as fh:
        doc = json.load(fh)
    mod = importlib.import_module(doc["check"])
    v = unjson(doc["violation"])
    again = _replay_case(mod, v["case"])
    if again:
        for a in again:
            print("VIOLATION property=%s replay=%s" % (pid, path))
            print("  %s: %s" % (a.get("kind"), json.dumps(jsonable(a.get("detail")))[:2000]))
        return 1
    print("%s: replay of %s no longer violates" % (pid, path))
    return 0


def main(argv=None):
    _reexec_with_hashseed()
    ap = argparse.ArgumentParser()
    ap.add_argument("property")
    ap.add_argument("--tier", default=os.environ.get("VERIF_TIER", "quick"))
    ap.add_argument("--replay")
    ap.add_argument("--jobs", type=int, default=int(os.environ.get("VERIF_JOBS", "16")))
    args = ap.parse_args(argv)
    seed = int(os.environ.get("VERIF_SEED", "0") or 0)
    pid = args.property.upper()
    sys.path.insert(0, VERIF)
    try:
        if args.replay:
            return run_replay(pid, args.replay)
        if args.tier not in ("quick", "thorough"):
            ap.error("tier must be quick or thorough")
        return run_check(pid, args.tier, seed, args.jobs)
    except Exception:  # noqa
        traceback.print_exc()
        return 2


if __name__ == "__main__":
    sys.exit(main())
