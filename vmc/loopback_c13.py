"""
Conformance pass for the fake datagram transport of C13: the same outcome
sequences are run through the real ``send_udp`` on real loopback sockets under
the stock asyncio selector loop.  Runs in its own process (no virtual clock).

    python -m vmc.loopback_c13 <repo src>   -> JSON on stdout

Only order-insensitive observables are reported: result bytes / exception
type, number of datagrams the peer received, payload identity, number of open
file descriptors before and after.
"""

import asyncio
import json
import os
import socket
import sys

TIMEOUT = 0.15
REQUEST = b"\x30\x03req"


def fd_count():
    return len(os.listdir("/proc/self/fd"))


class Peer(asyncio.DatagramProtocol):
    def __init__(self, plan):
        self.plan = list(plan)  # per received datagram: "reply" | "none"
        self.received = []

    def connection_made(self, transport):
        self.transport = transport

    def datagram_received(self, data, addr):
        self.received.append(data)
        i = len(self.received) - 1
        action = self.plan[i] if i < len(self.plan) else "none"
        if action == "reply":
            self.transport.sendto(b"\x30\x03rep%d" % i, addr)
        elif action == "two-replies":
            self.transport.sendto(b"\x30\x03rep%d" % i, addr)
            self.transport.sendto(b"second", addr)


async def one(seq, retries):
    from ipaddress import ip_address

    from puresnmp.transport import Endpoint, send_udp

    loop = asyncio.get_running_loop()
    before = fd_count()
    peer = None
    if seq == ["icmp"]:
        # a port nobody listens on
        s = socket.socket(socket.AF_INET, socket.SOCK_DGRAM)
        s.bind(("127.0.0.1", 0))
        port = s.getsockname()[1]
        s.close()
    else:
        transport, peer = await loop.create_datagram_endpoint(lambda: Peer(seq), local_addr=("127.0.0.1", 0))
        port = transport.get_extra_info("sockname")[1]
        before = fd_count()
    outcome = None
    request = REQUEST
    if seq == ["send-error"]:
        request = b"\x30" * 65508  # one octet more than a UDP datagram holds: EMSGSIZE
    try:
        data = await send_udp(Endpoint(ip_address("127.0.0.1"), port), request, timeout=TIMEOUT, retries=retries)
        outcome = ["result", data.decode("latin1")]
    except Exception as exc:  # noqa
        outcome = ["exception", type(exc).__name__ if not isinstance(exc, OSError) else "OSError"]
    await asyncio.sleep(2 * TIMEOUT)
    after = fd_count()
    received = len(peer.received) if peer else None
    same = all(d == REQUEST for d in peer.received) if peer else None
    if seq == ["send-error"]:
        received = same = None  # nothing leaves the host
    if peer:
        transport.close()
        await asyncio.sleep(0)
    return {"sequence": seq, "retries": retries, "outcome": outcome, "datagrams_received_by_peer": received, "payloads_identical": same, "fds_left_open": after - before}


SEQUENCES = [
    (["reply"], 1),
    (["reply"], 2),
    (["none"], 1),
    (["none", "none"], 2),
    (["none", "reply"], 2),
    (["none", "none", "reply"], 3),
    (["two-replies"], 1),
    (["icmp"], 1),
    (["icmp"], 2),
    (["send-error"], 1),
    (["send-error"], 2),
]


def main():
    sys.path.insert(0, sys.argv[1])
    import warnings

    warnings.simplefilter("ignore")
    out = []
    try:
        for seq, retries in SEQUENCES:
            out.append(asyncio.run(one(seq, retries)))
    except OSError as exc:
        print(json.dumps({"skipped": "loopback sockets unavailable: %r" % exc}))
        return 0
    print(json.dumps({"results": out}))
    return 0


if __name__ == "__main__":
    sys.exit(main())
