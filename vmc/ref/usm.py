"""
Reference User-based Security Model (RFC 3414), independent of puresnmp.

* password -> key exactly as RFC 3414 A.2 describes it (the password is
  repeated as often as necessary to feed 1 048 576 octets, in 64-octet
  chunks, to the hash), localisation H(Ku || engineID || Ku);
* HMAC (RFC 2104) written out with ipad/opad on top of hashlib, truncated to
  96 bits, computed over the message *as received* with the 12 digest octets
  replaced by zeros in place;
* time-window rule of RFC 3414 3.2 (7): boots equal and |delta time| <= 150.
"""

import hashlib
import importlib.util
import os
from functools import lru_cache

from . import ber, snmp

HASHES = {"md5": (hashlib.md5, 16), "sha1": (hashlib.sha1, 20)}

USM_STATS = {
    "unsupportedSecLevels": (1, 3, 6, 1, 6, 3, 15, 1, 1, 1, 0),
    "notInTimeWindows": (1, 3, 6, 1, 6, 3, 15, 1, 1, 2, 0),
    "unknownUserNames": (1, 3, 6, 1, 6, 3, 15, 1, 1, 3, 0),
    "unknownEngineIDs": (1, 3, 6, 1, 6, 3, 15, 1, 1, 4, 0),
    "wrongDigests": (1, 3, 6, 1, 6, 3, 15, 1, 1, 5, 0),
    "decryptionErrors": (1, 3, 6, 1, 6, 3, 15, 1, 1, 6, 0),
}


@lru_cache(maxsize=None)
def password_to_ku(method: str, password: bytes) -> bytes:
    """RFC 3414 A.2.1 / A.2.2, chunk by chunk."""
    if not password:
        raise ValueError("empty password")
    new, _ = HASHES[method]
    h = new()
    plen = len(password)
    # enough repetitions to cut any 64-octet window starting below plen
    rep = password * ((64 + plen) // plen + 1)
    index = 0
    count = 0
    while count < 1048576:
        h.update(rep[index : index + 64])
        index = (index + 64) % plen
        count += 64
    return h.digest()


@lru_cache(maxsize=None)
def localise(method: str, password: bytes, engine_id: bytes) -> bytes:
    new, _ = HASHES[method]
    ku = password_to_ku(method, password)
    return new(ku + engine_id + ku).digest()


def hmac96(method: str, key: bytes, message: bytes) -> bytes:
    """RFC 2104 HMAC, first 12 octets (RFC 3414 6.3.1 / 7.3.1)."""
    new, _ = HASHES[method]
    block = 64
    if len(key) > block:
        key = new(key).digest()
    key = key + b"\x00" * (block - len(key))
    ipad = bytes(b ^ 0x36 for b in key)
    opad = bytes(b ^ 0x5C for b in key)
    inner = new(ipad + message).digest()
    return new(opad + inner).digest()[:12]


def digest_offset(msg) -> int:
    """absolute offset of the msgAuthenticationParameters content"""
    return msg["sec_params_off"] + msg["usm"]["auth_off"]


def compute_digest(method: str, kul: bytes, datagram: bytes, msg) -> bytes:
    off = digest_offset(msg)
    n = len(msg["usm"]["auth"])
    zeroed = datagram[:off] + b"\x00" * n + datagram[off + n :]
    return hmac96(method, kul, zeroed)


def sign(method: str, kul: bytes, datagram: bytes) -> bytes:
    """datagram carries a 12-octet zero placeholder as auth parameters"""
    msg = snmp.dec_message(datagram)
    off = digest_offset(msg)
    if msg["usm"]["auth"] != b"\x00" * 12:
        raise ValueError("no 12-octet zero placeholder to sign into")
    d = hmac96(method, kul, datagram)
    return datagram[:off] + d + datagram[off + 12 :]


def in_time_window(my_boots, my_time, boots, time) -> bool:
    if my_boots == 2147483647:
        return False
    return boots == my_boots and abs(my_time - time) <= 150


_PLUGINS = {}


def priv_plugin(name: str):
    """Load a harness privacy plug-in by file (not through puresnmp)."""
    if name not in _PLUGINS:
        path = os.path.join(
            os.path.dirname(os.path.dirname(os.path.abspath(__file__))),
            "plugins",
            "puresnmp_plugins",
            "priv",
            name + ".py",
        )
        spec = importlib.util.spec_from_file_location("vmc_refpriv_" + name, path)
        mod = importlib.util.module_from_spec(spec)
        spec.loader.exec_module(mod)
        _PLUGINS[name] = mod
    return _PLUGINS[name]


class User:
    def __init__(self, name: bytes, auth=None, priv=None):
        """auth = (method, password) or None; priv = (plugin name, password)"""
        self.name = name
        self.auth = auth
        self.priv = priv

    @property
    def level(self):
        return (1 if self.auth else 0) | (2 if self.priv else 0)

    def auth_key(self, engine_id):
        return localise(self.auth[0], self.auth[1], engine_id)

    def priv_key(self, engine_id):
        # RFC 3414 2.6 / 11.2: the privacy password is localised with the
        # user's authentication hash
        return localise(self.auth[0], self.priv[1], engine_id)


def selftest():
    n = 0
    eid = bytes.fromhex("000000000000000000000002")
    # RFC 3414 A.3.1 / A.3.2
    assert password_to_ku("md5", b"maplesyrup").hex() == "9faf3283884e92834ebc9847d8edd963"
    assert localise("md5", b"maplesyrup", eid).hex() == "526f5eed9fcce26f8964c2930787d82b"
    assert password_to_ku("sha1", b"maplesyrup").hex() == "9fb5cc0381497b3793528939ff788d5d79145211"
    assert localise("sha1", b"maplesyrup", eid).hex() == "6695febc9288e36282235fc7151f128497b38f3f"
    n += 4
    # chunk-wise derivation equals the "first 2^20 octets of the repetition"
    for pw in (b"a", b"abc", b"maplesyrup", bytes(range(1, 64)), bytes(range(1, 66)), b"x" * 127, b"yz" * 100):
        rep = (pw * (1048576 // len(pw) + 1))[:1048576]
        assert hashlib.md5(rep).digest() == password_to_ku("md5", pw), pw
        n += 1
    # RFC 2202 HMAC vectors (truncated to 96 bits)
    assert hmac96("md5", b"\x0b" * 16, b"Hi There").hex() == "9294727a3638bb1c13f48ef8158bfc9d"[:24]
    assert hmac96("md5", b"Jefe", b"what do ya want for nothing?").hex() == "750c783e6ab0b503eaa86e310a5db738"[:24]
    assert hmac96("sha1", b"\x0b" * 20, b"Hi There").hex() == "b617318655057264e28bc0b6fb378c8ef146be00"[:24]
    assert hmac96("sha1", b"Jefe", b"what do ya want for nothing?").hex() == "effcdf6ae5eb2fa2d27416d5f184df9c259a7c79"[:24]
    assert hmac96("md5", b"\xaa" * 80, b"Test Using Larger Than Block-Size Key - Hash Key First").hex() == "6b1ab7fe4bd7bf8f0b62e6ce61b9d0cd"[:24]
    n += 5
    import hmac as _hmac

    for m in ("md5", "sha1"):
        for k in (b"", b"k", b"k" * 64, b"k" * 65):
            assert _hmac.new(k, b"msg", m).digest()[:12] == hmac96(m, k, b"msg")
            n += 1
    assert in_time_window(3, 1000, 3, 850) and in_time_window(3, 1000, 3, 1150)
    assert not in_time_window(3, 1000, 3, 849) and not in_time_window(3, 1000, 3, 1151)
    assert not in_time_window(3, 1000, 2, 1000) and not in_time_window(3, 1000, 4, 1000)
    n += 6
    return n
