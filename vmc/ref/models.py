"""
Executable reference models used as oracles.  Boring on purpose.
"""


def is_prefix(a, b):
    return len(a) <= len(b) and b[: len(a)] == a


def subtree(db, roots):
    """instances strictly below some root, and instances equal to a root"""
    below, equal = set(), set()
    for o in db:
        for r in roots:
            if o == r:
                equal.add(o)
            elif is_prefix(r, o):
                below.add(o)
    return below, equal


def table_view(db, entry):
    """{index tuple: {column: value}} for cells entry.<col>.<index...>"""
    rows = {}
    for o, v in db.items():
        if is_prefix(entry, o) and len(o) >= len(entry) + 2:
            col = o[len(entry)]
            idx = o[len(entry) + 1 :]
            rows.setdefault(idx, {})[col] = v
    return rows


# RFC 3416 error-status names -> documented exception class names of puresnmp
STATUS_CLASS = {
    1: "TooBig",
    2: "NoSuchOID",
    3: "BadValue",
    4: "ReadOnly",
    5: "GenErr",
    6: "NoAccess",
    7: "WrongType",
    8: "WrongLength",
    9: "WrongEncoding",
    10: "WrongValue",
    11: "NoCreation",
    12: "InconsistentValue",
    13: "ResourceUnavailable",
    14: "CommitFailed",
    15: "UndoFailed",
    16: "AuthorizationError",
    17: "NotWritable",
    18: "InconsistentName",
}


def pythonise(value):
    """reference (kind, value) -> the built-in Python object the pythonic API
    documents: str OIDs, int, bytes, timedelta (1/100 s), IPv4Address, None"""
    import datetime
    import ipaddress

    kind, v = value
    if kind in ("int", "c32", "g32", "c64"):
        return int(v)
    if kind in ("str", "opaque"):
        return bytes(v)
    if kind in ("null", "nso", "nsi", "eomv"):
        return None
    if kind == "oid":
        return ".".join(str(a) for a in v)
    if kind == "ip":
        return ipaddress.IPv4Address(bytes(v))
    if kind == "tt":
        return datetime.timedelta(milliseconds=10 * v)
    raise ValueError(kind)
