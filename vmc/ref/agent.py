"""
Reference SNMP agent (RFC 1157 for v1, RFC 3416 §4.2 for v2c/v3 PDUs).

A sorted map OID -> typed value.  Deterministic and conformant by default; all
optional or faulty behaviour is injected through small hooks that a harness
sets (and typically wires to explorer choice points):

    successor_fn(agent, oid, rep)   -> oid | None     (C03: arbitrary function)
    bulk_cut(agent, n, rows, info)  -> list of varbinds (C02: truncation policy)
    response_hook(agent, req, resp) -> resp            (C04/C07/C08 perturbation)
    bytes_hook(agent, req_bytes, resp_bytes) -> bytes  (C09/C20 rewriting)

Everything the agent sees and answers is kept in ``log``.
"""

from bisect import bisect_right
from typing import Any, Callable, Dict, List, Optional, Tuple

from . import ber, snmp
from .ber import BerError

EOMV = ("eomv", None)
NSO = ("nso", None)
NSI = ("nsi", None)
NULL = ("null", None)


class Drop(Exception):
    """The agent silently drops the datagram (no response)."""


class Agent:
    def __init__(self, db: Dict[Tuple[int, ...], Tuple[str, Any]], community=b"public"):
        self.db = dict(db)
        self.keys = sorted(self.db)
        self.community = community
        self.log: List[Dict[str, Any]] = []
        self.successor_fn: Optional[Callable] = None
        self.bulk_cut: Optional[Callable] = None
        self.response_hook: Optional[Callable] = None
        self.bytes_hook: Optional[Callable] = None
        self.check_community = True
        self.early_stop = False  # stop a GETBULK after an all-endOfMibView row
        self.writable = True
        self.length_form = 0

    # ------------------------------------------------------------------ MIB
    def _resort(self):
        self.keys = sorted(self.db)

    def successor(self, oid, rep=0):
        if self.successor_fn is not None:
            return self.successor_fn(self, oid, rep)
        i = bisect_right(self.keys, oid)
        return self.keys[i] if i < len(self.keys) else None

    def missing_marker(self, oid):
        """noSuchInstance if the OID lies under a known object type (instance
        OID minus its last arc), else noSuchObject."""
        for k in self.keys:
            obj = k[:-1]
            if obj and oid[: len(obj)] == obj:
                return NSI
        return NSO

    # ------------------------------------------------------------ operations
    def do_get(self, vbs, version):
        out = []
        for i, (oid, _) in enumerate(vbs):
            if oid in self.db:
                out.append((oid, self.db[oid]))
            elif version == 0:
                return None, (2, i + 1)
            else:
                out.append((oid, self.missing_marker(oid)))
        return out, None

    def do_getnext(self, vbs, version):
        out = []
        for i, (oid, _) in enumerate(vbs):
            nxt = self.successor(oid, 0)
            if nxt is None:
                if version == 0:
                    return None, (2, i + 1)
                out.append((oid, EOMV))
            else:
                out.append((nxt, self.value_of(nxt)))
        return out, None

    def value_of(self, oid):
        # adversarial successor functions may name OIDs that are not in the db
        return self.db.get(oid, ("int", 0))

    def do_set(self, vbs, version):
        if not self.writable:
            return None, (17 if version else 4, 1)
        for oid, val in vbs:
            self.db[oid] = val
        self._resort()
        return list(vbs), None

    def do_getbulk(self, vbs, non_rep, max_rep):
        n = max(min(non_rep, len(vbs)), 0)
        m = max(max_rep, 0)
        r = len(vbs) - n
        head = []
        for oid, _ in vbs[:n]:
            nxt = self.successor(oid, 0)
            head.append((oid, EOMV) if nxt is None else (nxt, self.value_of(nxt)))
        rows: List[List[Any]] = []
        cur = [oid for oid, _ in vbs[n:]]
        ended = [False] * r
        if r:
            for rep in range(m):
                row = []
                for c in range(r):
                    if ended[c]:
                        row.append((cur[c], EOMV))
                        continue
                    nxt = self.successor(cur[c], rep)
                    if nxt is None:
                        ended[c] = True
                        row.append((cur[c], EOMV))
                    else:
                        cur[c] = nxt
                        row.append((nxt, self.value_of(nxt)))
                rows.append(row)
                if self.early_stop and all(ended):
                    break
        info = {"n": n, "m": m, "r": r}
        if self.bulk_cut is not None:
            out = self.bulk_cut(self, head, rows, info)
        else:
            out = head + [vb for row in rows for vb in row]
        return out, {"head": head, "rows": rows, **info}

    # ------------------------------------------------------------- PDU level
    def process_pdu(self, pdu: Dict[str, Any], version: int, entry: Dict[str, Any]):
        """-> dict(tag, request_id, es, ei, varbinds)"""
        tag = pdu["tag"]
        vbs = pdu["varbinds"]
        err = None
        if tag == snmp.PDU_GET:
            out, err = self.do_get(vbs, version)
        elif tag == snmp.PDU_GETNEXT:
            out, err = self.do_getnext(vbs, version)
        elif tag == snmp.PDU_SET:
            out, err = self.do_set(vbs, version)
        elif tag == snmp.PDU_GETBULK:
            if version == 0:
                raise Drop("GETBULK in SNMPv1")
            out, bulk = self.do_getbulk(vbs, pdu["f1"], pdu["f2"])
            entry["bulk"] = bulk
        else:
            raise Drop("unsupported PDU %02x" % tag)
        if err is not None:
            resp = {
                "tag": snmp.PDU_RESPONSE,
                "request_id": pdu["request_id"],
                "es": err[0],
                "ei": err[1],
                "varbinds": list(vbs),
            }
        else:
            resp = {
                "tag": snmp.PDU_RESPONSE,
                "request_id": pdu["request_id"],
                "es": 0,
                "ei": 0,
                "varbinds": out,
            }
        if self.response_hook is not None:
            resp = self.response_hook(self, pdu, resp)
        entry["response"] = resp
        return resp

    @staticmethod
    def pdu_to_node(resp):
        return snmp.pdu_node(
            resp["tag"], resp["request_id"], resp["es"], resp["ei"], resp["varbinds"]
        )

    # --------------------------------------------------------- message level
    def handle(self, datagram: bytes) -> bytes:
        """Community-based (v1 / v2c) request -> response bytes."""
        entry: Dict[str, Any] = {"raw": datagram}
        self.log.append(entry)
        try:
            msg = snmp.dec_message(datagram)
        except BerError as exc:
            entry["verdict"] = "malformed: %s" % exc
            raise Drop(entry["verdict"])
        entry["msg"] = msg
        if msg["version"] not in (0, 1):
            entry["verdict"] = "bad version"
            raise Drop("version")
        if self.check_community and msg["community"] != self.community:
            entry["verdict"] = "bad community"
            raise Drop("community")
        entry["verdict"] = "ok"
        resp = self.process_pdu(msg["pdu"], msg["version"], entry)
        version = resp.get("version", msg["version"])
        community = resp.get("community", msg["community"])
        node = snmp.community_msg_node(version, community, self.pdu_to_node(resp))
        if self.length_form:
            for n in node.walk():
                n.form = self.length_form
        out = node.encode()
        if self.bytes_hook is not None:
            out = self.bytes_hook(self, datagram, out)
        entry["sent"] = out
        return out

    # convenience for harness oracles
    def requests(self):
        return [e for e in self.log if "msg" in e]
