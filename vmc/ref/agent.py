"""
Reference SNMP agent (RFC 1157 for v1, RFC 3416 §4.2 for v2c/v3 PDUs).

A sorted map OID -> typed value.  Deterministic and conformant by default; all
optional or faulty behaviour is injected through small hooks that a harness
sets (and typically wires to explorer choice points):

    successor_fn(agent, oid, rep)   -> oid | None     (C03: arbitrary function)
    bulk_cut(agent, n, rows, info)  -> list of varbinds (C02: truncation policy)
    response_hook(agent, req, resp) -> resp            (C04/C07/C08 perturbation)
    bytes_hook(agent, req_bytes, resp_bytes) -> bytes  (C09/C20 rewriting)

Everything the agent sees and answers is kept in ``log``.
"""

from bisect import bisect_right
from typing import Any, Callable, Dict, List, Optional, Tuple

from . import ber, snmp
from .ber import BerError

EOMV = ("eomv", None)
NSO = ("nso", None)
NSI = ("nsi", None)
NULL = ("null", None)


class Drop(Exception):
    """The agent silently drops the datagram (no response)."""


class Agent:
    def __init__(self, db: Dict[Tuple[int, ...], Tuple[str, Any]], community=b"public"):
        self.db = dict(db)
        self.keys = sorted(self.db)
        self.community = community
        self.log: List[Dict[str, Any]] = []
        self.successor_fn: Optional[Callable] = None
        self.bulk_cut: Optional[Callable] = None
        self.response_hook: Optional[Callable] = None
        self.bytes_hook: Optional[Callable] = None
        self.check_community = True
        self.early_stop = False  # stop a GETBULK after an all-endOfMibView row
        self.writable = True
        self.length_form = 0
        self.max_bulk_rows = 60
        self.node_hook = None  # (node tree, part name) -> None; may set length forms

    # ------------------------------------------------------------------ MIB
    def _resort(self):
        self.keys = sorted(self.db)

    def successor(self, oid, rep=0):
        if self.successor_fn is not None:
            return self.successor_fn(self, oid, rep)
        i = bisect_right(self.keys, oid)
        return self.keys[i] if i < len(self.keys) else None

    def missing_marker(self, oid):
        """noSuchInstance if the OID lies under a known object type (instance
        OID minus its last arc), else noSuchObject."""
        for k in self.keys:
            obj = k[:-1]
            if obj and oid[: len(obj)] == obj:
                return NSI
        return NSO

    # ------------------------------------------------------------ operations
    def do_get(self, vbs, version):
        out = []
        for i, (oid, _) in enumerate(vbs):
            if oid in self.db:
                out.append((oid, self.db[oid]))
            elif version == 0:
                return None, (2, i + 1)
            else:
                out.append((oid, self.missing_marker(oid)))
        return out, None

    def do_getnext(self, vbs, version):
        out = []
        for i, (oid, _) in enumerate(vbs):
            nxt = self.successor(oid, 0)
            if nxt is None:
                if version == 0:
                    return None, (2, i + 1)
                out.append((oid, EOMV))
            else:
                out.append((nxt, self.value_of(nxt)))
        return out, None

    def value_of(self, oid):
        # adversarial successor functions may name OIDs that are not in the db
        return self.db.get(oid, ("int", 0))

    def do_set(self, vbs, version):
        if not self.writable:
            return None, (17 if version else 4, 1)
        for oid, val in vbs:
            self.db[oid] = val
        self._resort()
        return list(vbs), None

    def do_getbulk(self, vbs, non_rep, max_rep):
        n = max(min(non_rep, len(vbs)), 0)
        # an agent answers as many repetitions as fit its message size
        m = min(max(max_rep, 0), self.max_bulk_rows)
        r = len(vbs) - n
        head = []
        for oid, _ in vbs[:n]:
            nxt = self.successor(oid, 0)
            head.append((oid, EOMV) if nxt is None else (nxt, self.value_of(nxt)))
        rows: List[List[Any]] = []
        cur = [oid for oid, _ in vbs[n:]]
        ended = [False] * r
        if r:
            for rep in range(m):
                row = []
                for c in range(r):
                    if ended[c]:
                        row.append((cur[c], EOMV))
                        continue
                    nxt = self.successor(cur[c], rep)
                    if nxt is None:
                        ended[c] = True
                        row.append((cur[c], EOMV))
                    else:
                        cur[c] = nxt
                        row.append((nxt, self.value_of(nxt)))
                rows.append(row)
                if self.early_stop and all(ended):
                    break
        info = {"n": n, "m": m, "r": r}
        if self.bulk_cut is not None:
            out = self.bulk_cut(self, head, rows, info)
        else:
            out = head + [vb for row in rows for vb in row]
        return out, {"head": head, "rows": rows, **info}

    # ------------------------------------------------------------- PDU level
    def process_pdu(self, pdu: Dict[str, Any], version: int, entry: Dict[str, Any]):
        """-> dict(tag, request_id, es, ei, varbinds)"""
        tag = pdu["tag"]
        vbs = pdu["varbinds"]
        err = None
        if tag == snmp.PDU_GET:
            out, err = self.do_get(vbs, version)
        elif tag == snmp.PDU_GETNEXT:
            out, err = self.do_getnext(vbs, version)
        elif tag == snmp.PDU_SET:
            out, err = self.do_set(vbs, version)
        elif tag == snmp.PDU_GETBULK:
            if version == 0:
                raise Drop("GETBULK in SNMPv1")
            out, bulk = self.do_getbulk(vbs, pdu["f1"], pdu["f2"])
            entry["bulk"] = bulk
        else:
            raise Drop("unsupported PDU %02x" % tag)
        if err is not None:
            resp = {
                "tag": snmp.PDU_RESPONSE,
                "request_id": pdu["request_id"],
                "es": err[0],
                "ei": err[1],
                "varbinds": list(vbs),
            }
        else:
            resp = {
                "tag": snmp.PDU_RESPONSE,
                "request_id": pdu["request_id"],
                "es": 0,
                "ei": 0,
                "varbinds": out,
            }
        if self.response_hook is not None:
            resp = self.response_hook(self, pdu, resp)
        entry["response"] = resp
        return resp

    @staticmethod
    def pdu_to_node(resp):
        return snmp.pdu_node(
            resp["tag"], resp["request_id"], resp["es"], resp["ei"], resp["varbinds"]
        )

    # --------------------------------------------------------- message level
    def handle(self, datagram: bytes) -> bytes:
        """Community-based (v1 / v2c) request -> response bytes."""
        entry: Dict[str, Any] = {"raw": datagram}
        self.log.append(entry)
        try:
            msg = snmp.dec_message(datagram, check_range=True)
        except BerError as exc:
            entry["verdict"] = "malformed: %s" % exc
            raise Drop(entry["verdict"])
        entry["msg"] = msg
        if msg["version"] not in (0, 1):
            entry["verdict"] = "bad version"
            raise Drop("version")
        if self.check_community and msg["community"] != self.community:
            entry["verdict"] = "bad community"
            raise Drop("community")
        entry["verdict"] = "ok"
        resp = self.process_pdu(msg["pdu"], msg["version"], entry)
        version = resp.get("version", msg["version"])
        community = resp.get("community", msg["community"])
        node = snmp.community_msg_node(version, community, self.pdu_to_node(resp))
        if self.length_form:
            for n in node.walk():
                n.form = self.length_form
        if self.node_hook is not None:
            self.node_hook(node, "message")
        out = node.encode()
        if self.bytes_hook is not None:
            out = self.bytes_hook(self, datagram, out)
        entry["sent"] = out
        return out

    # convenience for harness oracles
    def requests(self):
        return [e for e in self.log if "msg" in e]


# ---------------------------------------------------------------------------
# SNMPv3 / USM agent (RFC 3412 message processing, RFC 3414 security)
# ---------------------------------------------------------------------------


class RawNode(ber.N):
    """pre-encoded bytes inside a node tree"""

    def __init__(self, raw):
        self.raw = bytes(raw)
        self.tag = self.raw[0] if self.raw else 0
        self.content = None
        self.children = None
        self.form = 0

    def encode(self):
        return self.raw

    def walk(self):
        yield self


class V3Agent(Agent):
    """Authoritative SNMPv3 engine.  ``clock()`` returns the current virtual
    time in seconds; snmpEngineTime is derived from it."""

    def __init__(self, db, users, engine_id=b"\x80\x00\x1f\x88\x04agent1", clock=None, boots=7, strict_level=True):
        super().__init__(db)
        from . import usm

        self.usm = usm
        self.users = {u.name: u for u in users}
        self.engine_id = engine_id
        self.clock = clock or (lambda: 0.0)
        self.boots = boots
        self.boot_instant = self.clock() - 1000.0  # engine time starts at 1000
        self.strict_level = strict_level
        self.stats = {k: 0 for k in usm.USM_STATS}
        self.msg_hook = None  # (agent, req_msg, dict(msg_id=..)) -> dict
        self.max_size = 65507
        self.payload_hook = None  # (agent, scoped PDU bytes) -> bytes
        self.time_skew = 0  # added to the engine time put into Response messages (not Reports)

    @property
    def engine_time(self):
        return int(self.clock() - self.boot_instant)

    def reboot(self):
        self.boots += 1
        self.boot_instant = self.clock()

    # ------------------------------------------------------------------
    def _report(self, req, stat, level_user=None, request_id=0):
        """Report PDU.  level_user: a User -> authenticated report
        (notInTimeWindow), else noAuthNoPriv."""
        self.stats[stat] += 1
        pdu = snmp.pdu_node(
            snmp.PDU_REPORT, request_id, 0, 0,
            [(self.usm.USM_STATS[stat], ("c32", self.stats[stat]))],
        )
        user = level_user.name if level_user else req["usm"]["user"]
        return self._wrap(req, pdu, level_user, 1 if level_user else 0, user, req.get("scoped", {}).get("context_engine_id", self.engine_id), req.get("scoped", {}).get("context_name", b""))

    def _wrap(self, req, pdu_node, user, level, user_name, ctx_engine, ctx_name, msg_id=None, skew=0):
        usm = self.usm
        fields = {"msg_id": req["msg_id"] if msg_id is None else msg_id, "flags": level, "engine_id": self.engine_id,
                  "boots": self.boots, "time": self.engine_time + skew, "user": user_name}
        if self.msg_hook is not None:
            fields = self.msg_hook(self, req, fields)
        scoped = snmp.scoped_pdu_node(ctx_engine, ctx_name, pdu_node)
        if self.node_hook is not None:
            self.node_hook(scoped, "scoped")
        level = fields["flags"] & 3
        salt = b""
        payload = scoped
        clear = None
        if self.payload_hook is not None:
            # rewrite the plaintext scoped PDU before it is encrypted / signed
            clear = self.payload_hook(self, scoped.encode())
            payload = RawNode(clear)
        if level & 2:
            plug = usm.priv_plugin(user.priv[0])
            ct, salt = plug.encrypt_data(user.priv_key(self.engine_id), self.engine_id, fields["boots"], fields["time"], clear if clear is not None else scoped.encode())
            payload = ber.n_str(bytes(ct))
        auth_ph = b"\x00" * 12 if level & 1 else b""
        sp = snmp.usm_params_node(fields["engine_id"], fields["boots"], fields["time"], fields["user"], auth_ph, bytes(salt))
        if self.node_hook is not None:
            self.node_hook(sp, "usm")
        node = snmp.v3_msg_node(fields["msg_id"], self.max_size, fields["flags"], 3, sp.encode(), payload)
        if self.length_form:
            for n in node.walk():
                n.form = self.length_form
        if self.node_hook is not None:
            self.node_hook(node, "message")
        out = node.encode()
        if level & 1:
            out = usm.sign(user.auth[0], user.auth_key(self.engine_id), out)
        return out

    # ------------------------------------------------------------------
    def handle(self, datagram: bytes) -> bytes:
        usm = self.usm
        entry: Dict[str, Any] = {"raw": datagram, "v3": True}
        self.log.append(entry)
        try:
            msg = snmp.dec_message(datagram, check_range=True)
        except BerError as exc:
            entry["verdict"] = "malformed: %s" % exc
            raise Drop(entry["verdict"])
        if msg["version"] != 3:
            entry["verdict"] = "bad version"
            raise Drop("version")
        entry["msg"] = msg
        entry["engine_boots"] = self.boots
        entry["engine_time"] = self.engine_time
        flags = msg["flags"]
        reportable = bool(flags & 4)
        sp = msg["usm"]
        if msg["sec_model"] != 3 or (flags & 3) == 2:
            entry["verdict"] = "bad header"
            raise Drop("header")
        rid = msg["scoped"]["pdu"]["request_id"] if "scoped" in msg else 0
        if "scoped" in msg:
            entry["pdu"] = msg["scoped"]["pdu"]

        def finish(verdict, out):
            entry["verdict"] = verdict
            if out is None:
                raise Drop(verdict)
            if self.bytes_hook is not None:
                out = self.bytes_hook(self, datagram, out)
            entry["sent"] = out
            return out

        if sp["engine_id"] != self.engine_id:
            entry["discovery"] = sp["engine_id"] == b"" and sp["user"] == b"" and (flags & 3) == 0
            return finish("unknown-engine-id", self._report(msg, "unknownEngineIDs", None, rid) if reportable else None)
        user = self.users.get(sp["user"])
        if user is None:
            return finish("unknown-user", self._report(msg, "unknownUserNames", None, rid) if reportable else None)
        entry["user"] = user.name
        level = flags & 3
        if (level & 1 and not user.auth) or (level & 2 and not user.priv):
            return finish("unsupported-level", self._report(msg, "unsupportedSecLevels", None, rid) if reportable else None)
        if level & 1:
            if len(sp["auth"]) != 12 or usm.compute_digest(user.auth[0], user.auth_key(self.engine_id), datagram, msg) != sp["auth"]:
                return finish("wrong-digest", self._report(msg, "wrongDigests", None, rid) if reportable else None)
            if not usm.in_time_window(self.boots, self.engine_time, sp["boots"], sp["time"]):
                return finish("not-in-time-window", self._report(msg, "notInTimeWindows", user, rid) if reportable else None)
        if level & 2:
            plug = usm.priv_plugin(user.priv[0])
            try:
                clear = plug.decrypt_data(user.priv_key(self.engine_id), self.engine_id, sp["boots"], sp["time"], sp["priv"], msg["encrypted"])
                # block ciphers leave padding behind the scoped PDU
                node = ber.parse(bytes(clear))
                scoped = snmp.dec_scoped_pdu(node, check_range=True)
            except (BerError, ValueError, IndexError) as exc:
                return finish("decryption-error", self._report(msg, "decryptionErrors", None, 0) if reportable else None)
            entry["decrypted"] = bytes(clear)[: node.end]
            entry["padding"] = bytes(clear)[node.end :]
            msg["scoped"] = scoped
            entry["pdu"] = scoped["pdu"]
        if self.strict_level and level != user.level:
            # access control (VACM) configured for exactly the user's level
            return finish("level-below-configured", self._report(msg, "unsupportedSecLevels", None, rid) if reportable else None)
        scoped = msg["scoped"]
        pdu = scoped["pdu"]
        entry["reportable"] = reportable
        try:
            resp = self.process_pdu(pdu, 1, entry)
        except Drop as d:
            return finish("dropped: %s" % d, None)
        out = self._wrap(msg, self.pdu_to_node(resp), user, level, user.name, scoped["context_engine_id"], scoped["context_name"], msg_id=resp.get("msg_id"), skew=self.time_skew)
        return finish("ok", out)
