"""
Reference SNMP message codecs (RFC 1157 / 1901 community wrapper, RFC 3416
PDUs, RFC 3412 SNMPv3Message).  Independent of puresnmp and x690.
"""

from typing import Any, Dict, List, Optional, Tuple

from . import ber
from .ber import N, BerError, n_int, n_oid, n_str, seq

PDU_GET = 0xA0
PDU_GETNEXT = 0xA1
PDU_RESPONSE = 0xA2
PDU_SET = 0xA3
PDU_TRAPV1 = 0xA4
PDU_GETBULK = 0xA5
PDU_INFORM = 0xA6
PDU_TRAP = 0xA7
PDU_REPORT = 0xA8
PDU_TAGS = (0xA0, 0xA1, 0xA2, 0xA3, 0xA5, 0xA6, 0xA7, 0xA8)
CONFIRMED = (PDU_GET, PDU_GETNEXT, PDU_SET, PDU_GETBULK, PDU_INFORM)

VarBind = Tuple[Tuple[int, ...], Tuple[str, Any]]


# --------------------------------------------------------------------------
# building (trees of ber.N so that length forms can be chosen per TLV)
# --------------------------------------------------------------------------


def varbind_node(oid, value) -> N:
    return seq(n_oid(oid), ber.value_node(*value))


def pdu_node(tag: int, request_id: int, f1: int, f2: int, varbinds) -> N:
    """f1/f2 = error-status/error-index or non-repeaters/max-repetitions."""
    return N(
        tag,
        children=[
            n_int(request_id),
            n_int(f1),
            n_int(f2),
            seq(*[varbind_node(o, v) for o, v in varbinds]),
        ],
    )


def community_msg_node(version: int, community: bytes, pdu: N) -> N:
    return seq(n_int(version), n_str(community), pdu)


def usm_params_node(engine_id, boots, time, user, auth, priv) -> N:
    return seq(
        n_str(engine_id),
        n_int(boots),
        n_int(time),
        n_str(user),
        n_str(auth),
        n_str(priv),
    )


def scoped_pdu_node(ctx_engine: bytes, ctx_name: bytes, pdu: N) -> N:
    return seq(n_str(ctx_engine), n_str(ctx_name), pdu)


def v3_msg_node(
    msg_id: int,
    max_size: int,
    flags: int,
    sec_model: int,
    sec_params: bytes,
    payload: N,
) -> N:
    """payload = scoped PDU node (plain) or an OCTET STRING node (encrypted)"""
    return seq(
        n_int(3),
        seq(n_int(msg_id), n_int(max_size), n_str(bytes([flags])), n_int(sec_model)),
        n_str(sec_params),
        payload,
    )


# --------------------------------------------------------------------------
# parsing
# --------------------------------------------------------------------------


def dec_varbinds(node: ber.TLV, check_range=False) -> List[VarBind]:
    ber.expect(node, 0x30, "varbind list")
    out = []
    for vb in node.children:
        ber.expect(vb, 0x30, "varbind")
        if len(vb.children) != 2:
            raise BerError("varbind with %d elements" % len(vb.children))
        name, value = vb.children
        ber.expect(name, 0x06, "varbind name")
        out.append(
            (ber.dec_oid_content(name.content), ber.dec_value(value, check_range))
        )
    return out


def dec_pdu(node: ber.TLV, check_range=False) -> Dict[str, Any]:
    if node.tag not in PDU_TAGS:
        raise BerError("not a PDU tag: %02x" % node.tag)
    if len(node.children) != 4:
        raise BerError("PDU with %d fields" % len(node.children))
    rid, f1, f2, vbl = node.children
    for f in (rid, f1, f2):
        ber.expect(f, 0x02, "PDU integer field")
    out = {
        "tag": node.tag,
        "request_id": ber.dec_int_content(rid.content),
        "f1": ber.dec_int_content(f1.content),
        "f2": ber.dec_int_content(f2.content),
        "varbinds": dec_varbinds(vbl, check_range),
        "node": node,
    }
    if check_range:
        for k in ("request_id", "f1", "f2"):
            if not -(2**31) <= out[k] <= 2**31 - 1:
                raise BerError("%s out of Integer32 range" % k)
    return out


def dec_usm_params(blob: bytes) -> Dict[str, Any]:
    node = ber.parse_all(blob)
    ber.expect(node, 0x30, "UsmSecurityParameters")
    if len(node.children) != 6:
        raise BerError("UsmSecurityParameters with %d fields" % len(node.children))
    eid, boots, time, user, auth, priv = node.children
    ber.expect(eid, 0x04, "engine id")
    ber.expect(boots, 0x02, "boots")
    ber.expect(time, 0x02, "time")
    ber.expect(user, 0x04, "user")
    ber.expect(auth, 0x04, "auth params")
    ber.expect(priv, 0x04, "priv params")
    return {
        "engine_id": eid.content,
        "boots": ber.dec_int_content(boots.content),
        "time": ber.dec_int_content(time.content),
        "user": user.content,
        "auth": auth.content,
        "priv": priv.content,
        # offset of the auth parameter content inside *blob*
        "auth_off": auth.cstart,
        "node": node,
    }


def dec_scoped_pdu(node: ber.TLV, check_range=False) -> Dict[str, Any]:
    ber.expect(node, 0x30, "ScopedPDU")
    if len(node.children) != 3:
        raise BerError("ScopedPDU with %d fields" % len(node.children))
    ce, cn, pdu = node.children
    ber.expect(ce, 0x04, "contextEngineID")
    ber.expect(cn, 0x04, "contextName")
    return {
        "context_engine_id": ce.content,
        "context_name": cn.content,
        "pdu": dec_pdu(pdu, check_range),
    }


def dec_message(data: bytes, check_range=False) -> Dict[str, Any]:
    """Decode any SNMP message; dispatch on the version field."""
    root = ber.parse_all(data)
    ber.expect(root, 0x30, "message")
    if not root.children:
        raise BerError("empty message")
    ver = ber.expect(root.children[0], 0x02, "version")
    version = ber.dec_int_content(ver.content)
    if version in (0, 1):
        if len(root.children) != 3:
            raise BerError("community message with %d fields" % len(root.children))
        comm = ber.expect(root.children[1], 0x04, "community")
        return {
            "version": version,
            "community": comm.content,
            "pdu": dec_pdu(root.children[2], check_range),
            "root": root,
        }
    if version == 3:
        if len(root.children) != 4:
            raise BerError("v3 message with %d fields" % len(root.children))
        _, hdr, sp, payload = root.children
        ber.expect(hdr, 0x30, "HeaderData")
        if len(hdr.children) != 4:
            raise BerError("HeaderData with %d fields" % len(hdr.children))
        mid, mms, flags, model = hdr.children
        ber.expect(mid, 0x02, "msgID")
        ber.expect(mms, 0x02, "msgMaxSize")
        ber.expect(flags, 0x04, "msgFlags")
        ber.expect(model, 0x02, "msgSecurityModel")
        if len(flags.content) != 1:
            raise BerError("msgFlags of length %d" % len(flags.content))
        ber.expect(sp, 0x04, "msgSecurityParameters")
        fl = flags.content[0]
        out = {
            "version": 3,
            "msg_id": ber.dec_int_content(mid.content),
            "max_size": ber.dec_int_content(mms.content),
            "flags": fl,
            "sec_model": ber.dec_int_content(model.content),
            "sec_params_raw": sp.content,
            "sec_params_off": sp.cstart,
            "root": root,
            "payload_node": payload,
        }
        out["usm"] = dec_usm_params(sp.content)
        if fl & 0x02:
            ber.expect(payload, 0x04, "encryptedPDU")
            out["encrypted"] = payload.content
        else:
            out["scoped"] = dec_scoped_pdu(payload, check_range)
        return out
    raise BerError("unknown version %d" % version)


def x690_length_octets(n: int) -> bytes:
    """the length octets the x690 package (1.0) writes for content length n:
    minimal definite form, except that 127 is written in the long form"""
    if n < 127:
        return bytes([n])
    out = n.to_bytes((n.bit_length() + 7) // 8, "big")
    return bytes([0x80 | len(out)]) + out


def v3_wrappers(datagram: bytes):
    """The TLVs of an SNMPv3 message whose headers a parse/re-serialise round
    trip rewrites: message, header and its fields, security parameter string,
    USM sequence and its fields, scoped PDU (or encrypted PDU string), the two
    context strings and the PDU itself (not the PDU's inside)."""
    root = ber.parse_all(datagram)
    out = [root]
    ver, hdr, sp, payload = root.children
    out += [ver, hdr] + list(hdr.children) + [sp]
    usm = ber.parse_all(sp.content)
    # offsets of the inner parse are relative to sp.content; only lengths matter
    out += [usm] + list(usm.children)
    out.append(payload)
    if payload.tag == 0x30:
        out += list(payload.children)
    return out


def reserialisation_differs(datagram: bytes) -> bool:
    try:
        for t in v3_wrappers(datagram):
            lo = t.data[t.start + 1 : t.start + t.hlen]
            if lo != x690_length_octets(t.length):
                return True
    except (BerError, ValueError):
        return False
    return False
