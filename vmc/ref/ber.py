"""
Reference BER codec for SNMP, written from X.690 and RFC 1155/3416/3417.

Independent of puresnmp and x690 (imports nothing from them).  Boring on
purpose: a strict TLV parser that keeps offsets, and an encoder whose length
form can be selected per TLV.

Values on the reference side are plain tuples ``(kind, value)``:

    int     Python int (INTEGER / Integer32)
    str     bytes      (OCTET STRING)
    null    None
    oid     tuple of ints
    ip      bytes of length 4 (IpAddress)
    c32 g32 tt  int    (Counter32 / Gauge32 / TimeTicks)
    opaque  bytes
    c64     int
    nso nsi eomv None  (noSuchObject / noSuchInstance / endOfMibView)
"""

from typing import Any, Callable, List, Optional, Tuple


class BerError(Exception):
    pass


KIND_TAG = {
    "int": 0x02,
    "str": 0x04,
    "null": 0x05,
    "oid": 0x06,
    "ip": 0x40,
    "c32": 0x41,
    "g32": 0x42,
    "tt": 0x43,
    "opaque": 0x44,
    "c64": 0x46,
    "nso": 0x80,
    "nsi": 0x81,
    "eomv": 0x82,
}
TAG_KIND = {v: k for k, v in KIND_TAG.items()}
ALL_KINDS = tuple(KIND_TAG)
UNSIGNED_KINDS = ("c32", "g32", "tt", "c64")


# --------------------------------------------------------------------------
# encoding
# --------------------------------------------------------------------------


def enc_len(n: int, form: int = 0) -> bytes:
    """Length octets.  form 0 = minimal definite; k in 1..4 = long form with
    exactly k length octets (non-minimal if n would fit in fewer)."""
    if n < 0:
        raise BerError("negative length")
    if form == 0:
        if n < 128:
            return bytes([n])
        out = n.to_bytes((n.bit_length() + 7) // 8, "big")
        return bytes([0x80 | len(out)]) + out
    if n >= 1 << (8 * form):
        raise BerError("length %d does not fit %d octets" % (n, form))
    return bytes([0x80 | form]) + n.to_bytes(form, "big")


def enc_tlv(tag: int, content: bytes, form: int = 0) -> bytes:
    return bytes([tag]) + enc_len(len(content), form) + content


def enc_int_content(v: int) -> bytes:
    """Minimal two's complement."""
    n = 1
    while True:
        try:
            return v.to_bytes(n, "big", signed=True)
        except OverflowError:
            n += 1


def enc_uint_content(v: int) -> bytes:
    if v < 0:
        raise BerError("negative unsigned")
    return enc_int_content(v)  # positive ints get the leading 0 when needed


def enc_subid(v: int) -> bytes:
    if v < 0:
        raise BerError("negative sub-identifier")
    out = [v & 0x7F]
    v >>= 7
    while v:
        out.append((v & 0x7F) | 0x80)
        v >>= 7
    return bytes(reversed(out))


def enc_oid_content(arcs: Tuple[int, ...]) -> bytes:
    if len(arcs) == 0:
        return b""
    if len(arcs) == 1:
        return enc_subid(arcs[0] * 40)
    first, second = arcs[0], arcs[1]
    if first > 2 or (first < 2 and second > 39):
        raise BerError("invalid first arcs %r" % (arcs[:2],))
    return enc_subid(first * 40 + second) + b"".join(
        enc_subid(a) for a in arcs[2:]
    )


def enc_value_content(kind: str, value: Any) -> bytes:
    if kind == "int":
        return enc_int_content(value)
    if kind in ("str", "opaque"):
        return bytes(value)
    if kind in ("null", "nso", "nsi", "eomv"):
        return b""
    if kind == "oid":
        return enc_oid_content(tuple(value))
    if kind == "ip":
        if len(value) != 4:
            raise BerError("IpAddress needs 4 octets")
        return bytes(value)
    if kind in UNSIGNED_KINDS:
        return enc_uint_content(value)
    raise BerError("unknown kind %r" % kind)


class N:
    """A node of a to-be-encoded TLV tree: either primitive (content) or
    constructed (children).  ``form`` selects the length form of this TLV."""

    __slots__ = ("tag", "content", "children", "form")

    def __init__(self, tag, content=None, children=None, form=0):
        self.tag = tag
        self.content = content
        self.children = children
        self.form = form

    def walk(self):
        yield self
        for c in self.children or ():
            yield from c.walk()

    def encode(self) -> bytes:
        if self.children is not None:
            body = b"".join(c.encode() for c in self.children)
        else:
            body = self.content
        return enc_tlv(self.tag, body, self.form)


def value_node(kind: str, value: Any) -> N:
    if kind.startswith("raw-"):
        # explicit content octets (non-canonical but well-formed encodings:
        # redundant leading octets, unsigned values without the leading zero)
        return N(KIND_TAG[kind[4:]], content=bytes(value))
    return N(KIND_TAG[kind], content=enc_value_content(kind, value))


def enc_value(kind: str, value: Any, form: int = 0) -> bytes:
    return enc_tlv(KIND_TAG[kind], enc_value_content(kind, value), form)


def seq(*children, tag=0x30) -> N:
    return N(tag, children=list(children))


def n_int(v: int) -> N:
    return N(0x02, content=enc_int_content(v))


def n_str(v: bytes) -> N:
    return N(0x04, content=bytes(v))


def n_oid(arcs) -> N:
    return N(0x06, content=enc_oid_content(tuple(arcs)))


# --------------------------------------------------------------------------
# decoding
# --------------------------------------------------------------------------


class TLV:
    """A parsed TLV with absolute offsets into the datagram."""

    __slots__ = ("tag", "start", "hlen", "length", "data", "children")

    def __init__(self, tag, start, hlen, length, data):
        self.tag = tag
        self.start = start  # offset of the tag octet
        self.hlen = hlen  # tag + length octets
        self.length = length  # content length
        self.data = data  # the whole buffer
        self.children: Optional[List["TLV"]] = None

    @property
    def cstart(self) -> int:
        return self.start + self.hlen

    @property
    def end(self) -> int:
        return self.start + self.hlen + self.length

    @property
    def content(self) -> bytes:
        return self.data[self.cstart : self.end]

    @property
    def raw(self) -> bytes:
        return self.data[self.start : self.end]

    @property
    def constructed(self) -> bool:
        return bool(self.tag & 0x20)

    def walk(self):
        yield self
        for c in self.children or ():
            yield from c.walk()

    def __repr__(self):
        return "TLV(%02x@%d len=%d)" % (self.tag, self.start, self.length)


MAX_LEN_OCTETS = 4
MAX_DEPTH = 32


def parse_header(data: bytes, pos: int, end: int) -> Tuple[int, int, int]:
    """-> (tag, header length, content length).  Definite lengths only."""
    if pos + 2 > end:
        raise BerError("truncated header at %d" % pos)
    tag = data[pos]
    if tag & 0x1F == 0x1F:
        raise BerError("high tag number form at %d" % pos)
    l0 = data[pos + 1]
    if l0 < 0x80:
        return tag, 2, l0
    if l0 == 0x80:
        raise BerError("indefinite length at %d" % pos)
    k = l0 & 0x7F
    if l0 == 0xFF or k > MAX_LEN_OCTETS:
        raise BerError("length of length %d at %d" % (k, pos))
    if pos + 2 + k > end:
        raise BerError("truncated length at %d" % pos)
    return tag, 2 + k, int.from_bytes(data[pos + 2 : pos + 2 + k], "big")


def parse(data: bytes, pos: int = 0, end: Optional[int] = None, depth=0) -> TLV:
    """Parse one TLV (recursively for constructed tags) at *pos*."""
    if end is None:
        end = len(data)
    if depth > MAX_DEPTH:
        raise BerError("nesting too deep")
    tag, hlen, length = parse_header(data, pos, end)
    if pos + hlen + length > end:
        raise BerError(
            "TLV at %d overruns its container (%d > %d)"
            % (pos, pos + hlen + length, end)
        )
    node = TLV(tag, pos, hlen, length, data)
    if tag & 0x20:
        node.children = []
        p, e = node.cstart, node.end
        while p < e:
            child = parse(data, p, e, depth + 1)
            node.children.append(child)
            p = child.end
    return node


def parse_all(data: bytes) -> TLV:
    """Parse exactly one TLV covering the whole buffer."""
    node = parse(data)
    if node.end != len(data):
        raise BerError("%d trailing octets" % (len(data) - node.end))
    return node


def dec_int_content(b: bytes, signed: bool = True) -> int:
    if len(b) == 0:
        raise BerError("empty integer")
    return int.from_bytes(b, "big", signed=signed)


def _minimal_int(c: bytes) -> None:
    """X.690 8.3.2: the first nine bits are neither all zero nor all one"""
    if len(c) > 1 and ((c[0] == 0x00 and c[1] < 0x80) or (c[0] == 0xFF and c[1] >= 0x80)):
        raise BerError("integer content %s is not minimal" % c.hex())


def dec_oid_content(b: bytes) -> Tuple[int, ...]:
    if not b:
        return ()
    subs = []
    cur = 0
    pending = False
    for i, octet in enumerate(b):
        if not pending and octet == 0x80:
            raise BerError("sub-identifier with leading 0x80")
        cur = (cur << 7) | (octet & 0x7F)
        pending = bool(octet & 0x80)
        if not pending:
            subs.append(cur)
            cur = 0
    if pending:
        raise BerError("truncated sub-identifier")
    first = subs[0]
    if first < 40:
        head = (0, first)
    elif first < 80:
        head = (1, first - 40)
    else:
        head = (2, first - 80)
    return head + tuple(subs[1:])


RANGES = {
    "int": (-(2**31), 2**31 - 1),
    "c32": (0, 2**32 - 1),
    "g32": (0, 2**32 - 1),
    "tt": (0, 2**32 - 1),
    "c64": (0, 2**64 - 1),
}


def dec_value(node: TLV, check_range: bool = False) -> Tuple[str, Any]:
    kind = TAG_KIND.get(node.tag)
    if kind is None:
        raise BerError("unknown value tag %02x" % node.tag)
    c = node.content
    if kind == "int":
        v = dec_int_content(c)
        if check_range:
            _minimal_int(c)
    elif kind in UNSIGNED_KINDS:
        # RFC 3416: the unsigned types are IMPLICIT INTEGERs, i.e. two's
        # complement: values with the top bit set carry a leading zero octet.
        # Agents exist that omit it, so responses are read as an unsigned
        # magnitude.  What the *client* emits (check_range=True: requests) is
        # read the way the standard says - a missing sign octet makes the
        # value negative and therefore out of range.
        if check_range:
            v = dec_int_content(c, signed=True)
            _minimal_int(c)
        else:
            v = dec_int_content(c, signed=False)
    elif kind in ("str", "opaque"):
        v = c
    elif kind in ("null", "nso", "nsi", "eomv"):
        if c:
            raise BerError("non-empty %s" % kind)
        v = None
    elif kind == "oid":
        v = dec_oid_content(c)
    elif kind == "ip":
        if len(c) != 4:
            raise BerError("IpAddress of length %d" % len(c))
        v = c
    else:  # pragma: no cover
        raise BerError(kind)
    if check_range and kind in RANGES:
        lo, hi = RANGES[kind]
        if not lo <= v <= hi:
            raise BerError("%s out of range: %d" % (kind, v))
    return kind, v


def expect(node: TLV, tag: int, what: str) -> TLV:
    if node.tag != tag:
        raise BerError("%s: expected tag %02x, got %02x" % (what, tag, node.tag))
    return node


def oid_str(arcs) -> str:
    return ".".join(str(a) for a in arcs)


def oid_tuple(s) -> Tuple[int, ...]:
    if isinstance(s, tuple):
        return s
    s = s.strip(".")
    return tuple(int(x) for x in s.split(".")) if s else ()
