"""
Validation of the reference side against material that does not come from it:

* every captured packet under /repo/tests/data/**/*.hex (net-snmp traffic)
  must parse with ref.ber and re-encode to the identical bytes;
* RFC 3414 A.3 key localisation vectors, RFC 2202 HMAC vectors;
* the reference package imports nothing from puresnmp / x690.

Run by MANIFEST.setup_cmd and (cheaply) at the start of checks.
"""

import glob
import os
import re
import sys

from . import ber, snmp

_HEX = re.compile(r"^((?:[0-9a-fA-F]{2}(?: {1,2}|$))+)")
DATA_DIR = os.path.join(
    os.path.dirname(os.environ.get("VERIF_REPO_SRC", "/repo/src").rstrip("/")),
    "tests",
    "data",
)


def _hex_tokens(text):
    out = []
    for tok in text.split():
        if len(tok) == 2 and all(c in "0123456789abcdefABCDEF" for c in tok):
            out.append(tok)
            if len(out) == 16:
                break
        else:
            break
    return out


def read_hex_packets(path):
    """hex dump files: 16 octets per line followed by an ASCII column,
    '#' comments, '----' separators between packets"""
    with open(path) as fh:
        lines = [l.rstrip("\n") for l in fh]
    # the ASCII column starts at a fixed offset: learn it from a full line
    col = None
    for line in lines:
        m = re.match(r"^((?:[0-9a-fA-F]{2}\s+){16})", line)
        if m:
            col = len(m.group(1))
            break
    packets, cur = [], bytearray()
    for line in lines:
        if line.startswith("----"):
            if cur:
                packets.append(bytes(cur))
            cur = bytearray()
            continue
        if not line.strip() or line.lstrip().startswith("#"):
            continue
        text = line[:col] if col else line
        cur.extend(bytes.fromhex("".join(_hex_tokens(text))))
    if cur:
        packets.append(bytes(cur))
    return packets


def reencode(node: ber.TLV) -> bytes:
    if node.children is not None:
        body = b"".join(reencode(c) for c in node.children)
    elif node.tag in ber.TAG_KIND:
        kind, value = ber.dec_value(node)
        body = ber.enc_value_content(kind, value)
        # unsigned values sent without the leading zero octet, or integers
        # with redundant leading octets, are legal input but not canonical
        if body != node.content:
            again = ber.dec_value(ber.parse_all(ber.enc_tlv(node.tag, body)))
            assert again == (kind, value)
            body = node.content
    else:
        body = node.content
    return ber.enc_tlv(node.tag, body)


def check_captures():
    n = 0
    files = sorted(glob.glob(os.path.join(DATA_DIR, "**", "*.hex"), recursive=True))
    for path in files:
        for pkt in read_hex_packets(path):
            try:
                node = ber.parse_all(pkt)
            except ber.BerError as exc:
                raise AssertionError("%s: %s" % (path, exc))
            out = reencode(node)
            if out != pkt:
                raise AssertionError("%s: re-encoding differs" % path)
            n += 1
            if node.tag == 0x30 and node.children and node.children[0].tag == 0x02:
                ver = ber.dec_int_content(node.children[0].content)
                if ver in (0, 1, 3) and len(node.children) in (3, 4):
                    try:
                        snmp.dec_message(pkt)
                    except ber.BerError as exc:
                        # v1 Trap-PDUs (A4) are not modelled
                        if "a4" not in str(exc):
                            raise AssertionError("%s: %s" % (path, exc))
    if files and n < 50:
        raise AssertionError("only %d captured packets found" % n)
    return n


def check_codec_roundtrips():
    n = 0
    for v in [0, 1, -1, 127, 128, -128, -129, 255, 256, 32767, 32768, 2**31 - 1, -(2**31), 2**32 - 1, 2**63, 2**64 - 1]:
        c = ber.enc_int_content(v)
        assert ber.dec_int_content(c) == v, v
        assert len(c) == 1 or not (
            (c[0] == 0 and c[1] < 0x80) or (c[0] == 0xFF and c[1] >= 0x80)
        ), v
        n += 1
    for arcs in [(0, 0), (1, 3), (2, 39), (2, 999), (1, 3, 0), (1, 3, 127, 128, 16383, 16384, 2**32 - 1), (1, 3, 6, 1, 2, 1)]:
        assert ber.dec_oid_content(ber.enc_oid_content(arcs)) == arcs, arcs
        n += 1
    assert ber.enc_oid_content((1, 3, 6, 1, 4, 1, 8072)) == bytes.fromhex("2b06010401bf08")
    for length in (0, 1, 126, 127, 128, 255, 256, 65535, 65536):
        for form in (0, 1, 2, 3, 4):
            if form and length >= 1 << (8 * form):
                continue
            data = ber.enc_tlv(0x04, b"x" * length, form)
            node = ber.parse_all(data)
            assert node.length == length and node.content == b"x" * length
            n += 1
    assert ber.enc_len(127) == b"\x7f" and ber.enc_len(128) == b"\x81\x80"
    for bad in (b"\x30\x80\x02\x01\x01\x00\x00", b"\x30\x03\x02\x01", b"\x02\x01\x01\x00", b"\x1f\x01\x00", b"\x02\x85\x00\x00\x00\x00\x01\x01"):
        try:
            ber.parse_all(bad)
        except ber.BerError:
            n += 1
        else:
            raise AssertionError("accepted %r" % bad)
    return n


def check_independence():
    here = os.path.dirname(os.path.abspath(__file__))
    pat = re.compile(r"^\s*(?:from|import)\s+(puresnmp|x690)", re.M)
    for path in glob.glob(os.path.join(here, "*.py")):
        with open(path) as fh:
            src = fh.read()
        if pat.search(src):
            raise AssertionError("%s imports puresnmp/x690" % path)
    return True


def check_usm_vectors():
    try:
        from . import usm
    except ImportError:
        return 0
    return usm.selftest()


def main():
    n1 = check_codec_roundtrips()
    n2 = check_captures()
    check_independence()
    n3 = check_usm_vectors()
    print("ref selftest ok: %d codec cases, %d captured packets, %d usm vectors" % (n1, n2, n3))
    return 0


if __name__ == "__main__":
    sys.exit(main())
