"""
Generates /verif/MANIFEST.json from the table below (python -m vmc.manifest).
Only properties whose check module exists are claimed; the rest are listed
under not_applicable with the reason.
"""

import json
import os

VERIF = os.path.dirname(os.path.dirname(os.path.abspath(__file__)))

CHECKS = {
    "C01": dict(
        category="model_checking",
        technique="exhaustive small-scope enumeration of initial states (database x ordered root list x API x protocol), real client vs reference agent, subtree model + permutation-differential oracle",
        text="Every agent database over a 14-instance OID universe up to the size bound, with every ordered list of 1..3 pairwise disjoint roots, is walked by the real client against the reference agent; the yielded multiset must equal the subtree model, permutations of the roots must agree. Exhaustive within the stated scope; the scope realises every order/prefix relation between roots and instances that the walk logic can distinguish.",
        note="Trusted: reference agent (RFC 3416 GETNEXT semantics over a sorted map), reference BER codec validated against captured net-snmp packets; OIDs outside the universe and databases above the size bound are not covered.",
        design="5/C01",
    ),
    "C02": dict(
        category="model_checking",
        technique="choice-tree exploration (stateless, deviation-bounded) over the agent's GETBULK truncation policy per response, real client vs reference agent, differential against the GETNEXT walk and the subtree model",
        text="For each small-scope configuration and bulk size the explorer enumerates every way the agent may truncate each GETBULK response (full, early stop, any prefix) up to the deviation bound; each execution's result must equal the reference GETNEXT walk and the real multiwalk result, each instance once. Every execution runs on a fresh client; per configuration the default execution is repeated on a long-lived client that served all earlier configurations (history pass). A wide-walk family (17..41 sibling roots of unequal length, thorough up to 65) covers requests beyond any per-request limit.",
        note="Trusted: reference agent's GETBULK (RFC 3416 4.2.3); bound on deviations and database size as reported in the evidence.",
        design="5/C02",
    ),
    "C03": dict(
        category="model_checking",
        technique="choice-tree exploration with a lazily built adversarial agent function (every function OID x repetition -> OID or endOfMibView over a finite universe; short answers and error responses decided per distinct request), oracle on the request log",
        text="The agent is an arbitrary function from (requested OID, repetition) to an OID of a finite universe or endOfMibView, chosen lazily at first use and memoised, so all reachable behaviours (same OID, smaller OID, cycles, leaving and re-entering, endOfMibView anywhere) are enumerated; every execution must end within the request bound, never re-request, and end with FaultySNMPImplementation (or normally in lenient mode) on a non-advancing answer.",
        note="Finite OID universe and horizon as reported; larger bulk sizes deviation-bounded.",
        design="5/C03",
    ),
    "C04": dict(
        category="model_checking",
        technique="exhaustive small-scope enumeration (database x OID list x operation x version) plus one response-perturbation choice point, oracle from the sorted-map semantics of RFC 3416",
        text="Every OID list up to length 3 over a menu of existing, missing, before-first and after-last OIDs is sent through every request operation against the reference agent, with and without one added/dropped binding; results must equal what the sorted database defines.",
        note="Trusted: reference agent; OID menu and database fixed by boundary analysis.",
        design="5/C04",
    ),
    "C05": dict(
        category="model_checking",
        technique="exhaustive enumeration of boundary-value argument sets per operation; every emitted datagram decoded by an independent strict BER/SNMP decoder",
        text="Every datagram captured at the sender seam over the boundary universes (sub-identifiers, arcs, value types and ranges, ids, bulk parameters, communities, contexts, engine ids) must strictly decode to exactly the intended request; the request-id is whatever Integer32 the client picked (it must recognise it when the reference agent echoes it), msgID within 0..2^31-1.",
        note="Trusted: reference decoder (validated on captured net-snmp traffic). Values outside the boundary sets are not covered.",
        design="5/C05",
    ),
    "C06": dict(
        category="model_checking",
        technique="exhaustive enumeration of value x BER length form x list length for responses built by an independent encoder; type and value returned compared with the independent decoder",
        text="Every value kind over boundary values, in minimal and non-minimal definite length forms applied to each TLV on the path, is delivered through Client.multiget; the class and value returned must equal what the reference decoder reads from the same bytes; re-encodings must decode to the same content.",
        note="Trusted: reference codec. Indefinite lengths are outside the quantifier.",
        design="5/C06",
    ),
    "C07": dict(
        category="model_checking",
        technique="choice-tree exploration: free clock-advance choice after every clock read x per-response request-id/community/version perturbation, exhaustive within the deviation bound",
        text="For every operation and protocol version all clock schedules (advance or not after each read of time.time by the library) combined with every single perturbation of a response (id +1/-1/0/previous/foreign, error response with a foreign id, wrong/empty community, other version) are executed against the real client; a result is accepted iff the id found by the reference decoder in the datagram sent equals the response id.",
        note="Trusted: virtual clock installed before puresnmp is imported; reference decoder. At most the stated number of perturbed responses per execution.",
        design="5/C07",
    ),
    "C08": dict(
        category="model_checking",
        technique="exhaustive enumeration of the status x error-index x list-length x operation x version matrix against an RFC 3416 status table",
        text="The full matrix of error-status values (defined, undefined, negative), error-index values (negative, 0, in range, beyond the list), binding-list lengths and operations is answered by the scripted reference agent; each call must raise the documented exception class naming the selected binding and return no data.",
        note="Trusted: status table written from RFC 3416; reference encoder.",
        design="5/C08",
    ),
    "C09": dict(
        category="fault_enumeration",
        technique="exhaustive fault enumeration on authentic USM responses: every single-bit flip at every position, flag-octet pairs, and a list of structural forgeries, each executed against the real client under a CPU-time guard",
        text="A man-in-the-middle around the reference USM agent rewrites authentic responses in every single-bit way and by every listed structural forgery; each outcome must be an exception or exactly the authentic result.",
        note="Trusted: reference USM implementation (pinned by RFC 3414 A.3 vectors). Multi-bit corruptions beyond the listed families are not covered.",
        design="5/C09",
    ),
    "C10": dict(
        category="model_checking",
        technique="exhaustive enumeration of password lengths x engine ids x operations x response sizes against an independent RFC 3414 agent whose verdict is the oracle",
        text="Every request is judged by the reference USM agent (digest over the bytes as sent, flags, reportable bit, engine id/boots/time, user) and every authentic minimal-BER response of sizes sweeping all length-form boundaries must be accepted with the value sent.",
        note="Trusted: reference USM (A.2 key derivation pinned by A.3 vectors, HMAC by RFC 2202 vectors); hashlib/hmac are shared.",
        design="5/C10",
    ),
    "C11": dict(
        category="model_checking",
        technique="exhaustive enumeration of plug-in x hash x password x engine id x operation x size; ciphertext recomputed by the reference with its own key derivation; plaintext search on the wire",
        text="With harness-supplied privacy plug-ins, each datagram's encrypted PDU must equal the plug-in's ciphertext of the reference-encoded scoped PDU under the reference-derived key, the salt must be the plug-in's, no plaintext marker may appear, and encrypted responses must round-trip.",
        note="Trusted: reference key localisation; plug-ins are deterministic test transforms, not real ciphers.",
        design="5/C11",
    ),
    "C12": dict(
        category="model_checking",
        technique="explicit-state breadth-first search over histories (operation / clock advance / agent reboot) with canonical state hashing; each transition runs the real client against the reference USM agent on one virtual clock",
        text="All histories up to the depth bound over operations, clock advances from 1 s to 30 days and reboots are explored; in every state an operation must return the agent's value; discovery must come first and foreign discovery replies must be refused.",
        note="Canonical state = (discovered, boots delta, time delta); equal canon implies equal futures because the time-window verdict depends only on these differences.",
        design="5/C12",
    ),
    "C13": dict(
        category="model_checking",
        technique="choice-tree exploration of per-attempt network outcomes and timer/datagram orderings of the real send_udp on a virtual-time event loop with fake datagram transports; oracle over the trace of what reached an open socket; closed-form or independent recursive leaf count cross-check",
        text="Every sequence of per-attempt outcomes (reply, none, reply at/after the timeout, duplicate, ICMP error, connection lost, cancellation, empty reply, send error) up to the retry budget is executed on a virtual loop, also with socket set-up that takes time and with the library's logging at DEBUG; the first datagram that reached a socket the call still had open must be returned at that instant, every transmission must follow the previous one by exactly `timeout` (plus set-up), Timeout must come `timeout` after the `retries`-th transmission, every transport must be closed. The oracle holds for any socket structure (one per attempt or one for all).",
        note="Trusted: virtual loop built on asyncio.BaseEventLoop; fake transport models the selector transport contract (checked against loopback sockets in the thorough tier).",
        design="5/C13",
    ),
    "C14": dict(
        category="model_checking",
        technique="stateless schedule exploration (preemption-bounded) of concurrent asyncio tasks on a shared client: the explorer chooses which pending request the agent answers next, or that a caller cancels its operation; solo-result oracle",
        text="For sets of 2..6 concurrent operations (raw client and pythonic wrapper, near-duplicate requests that differ only in repetition count / split / value / order, operations whose caller gives up) every order of answering their pending requests (exhaustive for small sets, preemption-bounded beyond) is executed on a virtual loop; each task's result must equal its solo result and the agent must see only well-formed requests of the right user.",
        note="Requests are attributed to operations through a context variable (an implementation may send from tasks of its own); interleaving count cross-checked against the multinomial closed form or an independent recursive count.",
        design="5/C14",
    ),
    "C15": dict(
        category="model_checking",
        technique="exhaustive enumeration of wrapper method x value kind x position; recursive type inspection and comparison with the pythonised raw result",
        text="Every PyWrapper method is run against databases placing each of the 13 value kinds at each result position; results must consist of built-in types only (keys included) and equal the element-wise pythonisation of the raw client's result for the same exchange; a pair family puts every ordered pair of 19 small values of different kinds (equal or one-octet contents) into one result.",
        note="Trusted: reference pythonisation map.",
        design="5/C15",
    ),
    "C16": dict(
        category="model_checking",
        technique="exhaustive small-scope enumeration of tables (columns x rows x every sparsity pattern x index shapes x neighbours x bulk sizes) against a table model; four API variants compared",
        text="Every table shape in scope is fetched with table(), bulktable() and the pythonic variants against the reference agent; rows must equal the reference view and all variants must agree.",
        note="Column number 0 excluded (reserved key).",
        design="5/C16",
    ),
    "C17": dict(
        category="exploration",
        technique="exhaustive range enumeration (dense prefix of TimeTicks in both directions, boundary bands, all boundary integers and addresses) against independent integer arithmetic",
        text="Counter/Counter64 wrap and clamp, unsigned decoding, TimeTicks<->timedelta and IpAddress conversions are evaluated on every value of the dense ranges and boundary bands and compared with independently computed results; encode/decode round trips must be identities; boundary numbers of every application type are also fetched together in one datagram and converted, before and after conversions of timedeltas between two ticks.",
        note="Exhaustive on the stated ranges only.",
        design="5/C17",
    ),
    "C18": dict(
        category="model_checking",
        technique="explicit-state breadth-first search over histories of configure / reconfigure-enter / exit (normal, exceptional) / request with a stack-of-dicts reference model; canonical state hashing",
        text="All properly nested histories up to the length and depth bounds are replayed on a fresh real client; at each request the sender arguments and datagram must reflect the model's top of stack, and each exit must restore the pre-enter behaviour.",
        note="Canonical state = model stack + which frames have served which credentials + every credentials used in the history + what is visible of client.config / mpm. The discovery clause is behavioural: after a request has succeeded in a frame, every later request of that frame (also after inner blocks) is one datagram.",
        design="5/C18",
    ),
    "C19": dict(
        category="model_checking",
        technique="explicit-state breadth-first search over datagram sequences injected into the real trap listener on a virtual loop; delivery multiset oracle from the reference decoder",
        text="All sequences up to the length bound over valid, foreign-community, truncated, v1, garbage and inform datagrams are injected; the callback must fire exactly once per valid matching trap with the bindings and origin sent (also for the same datagram from another sender, also when read again after later datagrams), never otherwise, and failures must not stop later deliveries.",
        note="Virtual loop and fake transport as for C13.",
        design="5/C19",
    ),
    "C20": dict(
        category="fault_enumeration",
        technique="exhaustive fault enumeration (every bit flip, truncation, every byte value at every TLV header position, nesting bombs) under a CPU-time and memory budget, with a follow-up request on the same client",
        text="Every mutation of the finite fault space over the seed datagrams is delivered to the real client; the call must complete within a CPU-time and allocation budget proportional to the datagram size and the client must remain usable.",
        note="Budgets are CPU time (ITIMER_VIRTUAL) and traced allocations, not wall clock. Random byte strings are sampling and not claimed.",
        design="5/C20",
    ),
}


def build():
    checks = []
    not_applicable = []
    for pid, c in CHECKS.items():
        mod = os.path.join(VERIF, "vmc", "checks", pid.lower() + ".py")
        if not os.path.exists(mod):
            not_applicable.append(
                {"property_id": pid, "reason": "check not built yet (design in DESIGN.md section %s); not claimed" % c["design"]}
            )
            continue
        checks.append(
            {
                "property_id": pid,
                "quick_cmd": "bin/check %s --tier quick" % pid,
                "thorough_cmd": "bin/check %s --tier thorough" % pid,
                "evidence_file": "/verif/evidence/%s.json" % pid,
                "replay_cmd_template": "bin/check %s --replay {path}" % pid,
                "engine": "vmc",
                "level_claimed": {
                    "category": c["category"],
                    "text": c["text"],
                    "design_ref": "DESIGN.md section " + c["design"],
                },
                "level_note": c["note"],
                "technique": c["technique"],
            }
        )
    return {
        "version": 1,
        "setup_cmd": "cd /verif && /venv/bin/python -m compileall -q vmc && /venv/bin/python -m vmc.ref.selftest",
        "hooks": {
            "guard": "PURESNMP_VERIF",
            "enable": "no hooks: every seam is public (Client(sender=...), the running event loop, time.time replaced before import, puresnmp_plugins namespace directory); checks import /repo/src directly",
            "baseline_off_cmd": "cd /repo && /venv/bin/python -m pytest -ra -q -p no:cacheprovider --timeout=900 --continue-on-collection-errors",
            "source_commits": [],
            "add_only": True,
        },
        "engines": [
            {
                "name": "vmc",
                "path": "/verif/vmc",
                "serves_properties": [c["property_id"] for c in checks],
                "kind_free_text": "hand-written bounded exhaustive explorer for Python: stateless choice-tree exploration with prefix replay and deviation bounding (vmc/explore.py), explicit-state BFS over event histories (vmc/statespace.py), virtual-time asyncio loop with controlled sender (vmc/vloop.py), independent reference BER/SNMP/USM/agent (vmc/ref)",
            }
        ],
        "checks": checks,
        "not_applicable": not_applicable,
        "notes": "All checks run the unmodified implementation from /repo/src against a reference environment; see DESIGN.md. Known findings are in known_findings.json.",
    }


def main():
    doc = build()
    with open(os.path.join(VERIF, "MANIFEST.json"), "w") as fh:
        json.dump(doc, fh, indent=1)
        fh.write("\n")
    print("MANIFEST.json: %d checks, %d not claimed" % (len(doc["checks"]), len(doc["not_applicable"])))


if __name__ == "__main__":
    main()
