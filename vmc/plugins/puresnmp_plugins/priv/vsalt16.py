"""
Harness privacy plug-in: keyed SHA-256 counter-mode stream transform with a 16-octet salt (IV-sized privacy parameters).

NOT a real cipher - a deterministic test transform that depends on every
argument the privacy interface passes (key, engine id, boots, time, salt), so
that a wrong key / wrong parameter on either side makes decryption fail.
Imports nothing from puresnmp.
"""

import hashlib

IDENTIFIER = "vsalt16"
IANA_ID = -104

_counter = [0]


def reset():
    _counter[0] = 0


def _stream(key, engine_id, boots, time, salt, n):
    out = bytearray()
    block = 0
    seed = b"|".join(
        [bytes(key), bytes(engine_id), str(int(boots)).encode(), str(int(time)).encode(), bytes(salt)]
    )
    while len(out) < n:
        out.extend(hashlib.sha256(seed + b"#" + str(block).encode()).digest())
        block += 1
    return bytes(out[:n])


def encrypt_data(localised_key, engine_id, engine_boots, engine_time, data):
    _counter[0] += 1
    salt = hashlib.sha256(b"salt%d" % _counter[0]).digest()[:16]
    ks = _stream(localised_key, engine_id, engine_boots, engine_time, salt, len(data))
    return bytes(a ^ b for a, b in zip(data, ks)), salt


def decrypt_data(localised_key, engine_id, engine_boots, engine_time, salt, data):
    ks = _stream(localised_key, engine_id, engine_boots, engine_time, salt, len(data))
    return bytes(a ^ b for a, b in zip(data, ks))
