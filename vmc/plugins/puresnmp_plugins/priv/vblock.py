"""
Harness privacy plug-in: like vstream but pads the plaintext with zero octets
to a multiple of 8 (as block ciphers such as DES do), so that decryption
returns the plaintext followed by padding.  Imports nothing from puresnmp.
"""

import hashlib

IDENTIFIER = "vblock"
IANA_ID = -102
BLOCK = 8

_counter = [0]


def reset():
    _counter[0] = 0


def _stream(key, engine_id, boots, time, salt, n):
    out = bytearray()
    block = 0
    seed = b"/".join(
        [bytes(key), bytes(engine_id), str(int(boots)).encode(), str(int(time)).encode(), bytes(salt)]
    )
    while len(out) < n:
        out.extend(hashlib.sha256(seed + b"@" + str(block).encode()).digest())
        block += 1
    return bytes(out[:n])


def encrypt_data(localised_key, engine_id, engine_boots, engine_time, data):
    _counter[0] += 1
    salt = hashlib.sha256(b"blk%d" % _counter[0]).digest()[:8]
    data = bytes(data) + b"\x00" * (-len(data) % BLOCK)
    ks = _stream(localised_key, engine_id, engine_boots, engine_time, salt, len(data))
    return bytes(a ^ b for a, b in zip(data, ks)), salt


def decrypt_data(localised_key, engine_id, engine_boots, engine_time, salt, data):
    if len(data) % BLOCK:
        raise ValueError("ciphertext is not a multiple of the block size")
    ks = _stream(localised_key, engine_id, engine_boots, engine_time, salt, len(data))
    return bytes(a ^ b for a, b in zip(data, ks))
