"""
Harness privacy plug-in: vstream that records every call (for C11).
Imports nothing from puresnmp.
"""

import hashlib

IDENTIFIER = "vrecord"
IANA_ID = -103

CALLS = []
_counter = [0]


def reset():
    _counter[0] = 0
    del CALLS[:]


def _stream(key, engine_id, boots, time, salt, n):
    out = bytearray()
    block = 0
    seed = b"~".join(
        [bytes(key), bytes(engine_id), str(int(boots)).encode(), str(int(time)).encode(), bytes(salt)]
    )
    while len(out) < n:
        out.extend(hashlib.sha256(seed + b"%" + str(block).encode()).digest())
        block += 1
    return bytes(out[:n])


def encrypt_data(localised_key, engine_id, engine_boots, engine_time, data):
    _counter[0] += 1
    salt = hashlib.sha256(b"rec%d" % _counter[0]).digest()[:8]
    CALLS.append(("encrypt", bytes(localised_key), bytes(engine_id), engine_boots, engine_time, salt, bytes(data)))
    ks = _stream(localised_key, engine_id, engine_boots, engine_time, salt, len(data))
    return bytes(a ^ b for a, b in zip(data, ks)), salt


def decrypt_data(localised_key, engine_id, engine_boots, engine_time, salt, data):
    CALLS.append(("decrypt", bytes(localised_key), bytes(engine_id), engine_boots, engine_time, bytes(salt), bytes(data)))
    ks = _stream(localised_key, engine_id, engine_boots, engine_time, salt, len(data))
    return bytes(a ^ b for a, b in zip(data, ks))
