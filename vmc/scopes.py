"""
Small-scope universes.  Walk/table logic depends on the relative order and
prefix relations of a few OIDs, not on their magnitude, so the universes
realise every order type with short OIDs.
"""

from itertools import combinations, permutations

# 15 candidate instances (one with a multi-octet sub-identifier, one under a
# sibling whose number has the decimal digits of another root as a prefix:
# 1.3.10 vs 1.3.1): before all roots, on a root, at depth 1 and 2 under
# roots, inside a nested root, between roots, after the last populated root.
U = [
    (1, 2, 9),
    (1, 3, 1, 1),
    (1, 3, 1, 1, 5),
    (1, 3, 1, 2),
    (1, 3, 2, 1),
    (1, 3, 2, 2, 1),
    (1, 3, 2, 2, 2),
    (1, 3, 2, 300),
    (1, 3, 3, 1),
    (1, 3, 3, 2),
    (1, 3, 5, 1),
    (1, 3, 9, 1),
    (1, 3, 10, 1),
    (1, 5, 7, 1),
    (1, 5, 8),
]

# siblings; a root nested in a sibling; a root equal to a candidate instance;
# an always-empty root between populated ones; a far-apart root; a root past
# the end of every database
ROOTS = [
    (1, 3, 1),
    (1, 3, 2),
    (1, 3, 3),
    (1, 3, 2, 2),
    (1, 3, 1, 1),
    (1, 3, 8),
    (1, 3, 10),
    (1, 5, 7),
    (1, 9),
]


# Sub-identifiers at the boundaries of their base-128 encoding (127 | 128,
# 16383 | 16384) and pairs whose numeric order differs from the order of their
# encoded octets (300 = 82 2c, 16385 = 81 80 01), next to one another in a
# subtree and as roots.
UM = [
    (1, 2, 9),
    (1, 3, 2, 127),
    (1, 3, 2, 128),
    (1, 3, 2, 300),
    (1, 3, 2, 16383),
    (1, 3, 2, 16384),
    (1, 3, 2, 16385),
    (1, 3, 300, 1),
    (1, 3, 16384, 1),
    (1, 5, 8),
]
ROOTS_M = [(1, 3, 2), (1, 3, 300), (1, 3, 16384), (1, 3, 129)]


def is_prefix(a, b):
    return len(a) <= len(b) and b[: len(a)] == a


def disjoint(roots):
    for a, b in combinations(roots, 2):
        if is_prefix(a, b) or is_prefix(b, a):
            return False
    return True


def root_sets(max_len=3, menu=ROOTS):
    out = []
    for k in range(1, max_len + 1):
        for combo in combinations(menu, k):
            if disjoint(combo):
                out.append(combo)
    return out


def root_lists(max_len=3, menu=ROOTS):
    out = []
    for combo in root_sets(max_len, menu):
        out.extend(permutations(combo))
    return out


def databases(max_size, universe=U):
    for k in range(0, max_size + 1):
        for combo in combinations(range(len(universe)), k):
            yield combo


def db_from_indices(idx, universe=U):
    db = {}
    for i in idx:
        # distinct typed values so that mis-attribution is visible
        if i % 3 == 0:
            db[universe[i]] = ("str", b"v%d" % i)
        elif i % 3 == 1:
            db[universe[i]] = ("int", 100 + i)
        else:
            db[universe[i]] = ("c32", 1000 + i)
    return db


def chunks(seq, n):
    seq = list(seq)
    size = max(1, (len(seq) + n - 1) // n)
    return [seq[i : i + size] for i in range(0, len(seq), size)]
