"""
Uniform way to run every public Client operation loop-free and to normalise
its result into reference values (nested tuples, hashable).

An operation is a tuple ``(name, *args)`` with OIDs as int tuples and values as
reference ``(kind, value)`` pairs, so that cases are JSON-able.
"""

from . import drive
from .world import OID, norm_oid, norm_value, to_lib_value

WALK_LIMIT = 10_000


def _vb(vb):
    return (norm_oid(vb[0]), norm_value(vb[1]))


def _row(row):
    out = []
    for k, v in row.items():
        if k == "0":
            out.append((k, ("index", v)))
        else:
            out.append((k, norm_value(v)))
    return tuple(sorted(out))


def tup(x):
    if isinstance(x, list):
        return tuple(tup(i) for i in x)
    if isinstance(x, tuple):
        return tuple(tup(i) for i in x)
    return x


def run_op(client, op):
    """-> (result, exc).  result is normalised (hashable) or None.
    For walk-type operations the items yielded before an exception are kept
    in result as well."""
    name, args = op[0], op[1:]
    try:
        if name == "get":
            return norm_value(drive.run(client.get(OID(args[0])))), None
        if name == "multiget":
            res = drive.run(client.multiget([OID(o) for o in args[0]]))
            return tuple(norm_value(v) for v in res), None
        if name == "getnext":
            return _vb(drive.run(client.getnext(OID(args[0])))), None
        if name == "multigetnext":
            res = drive.run(client.multigetnext([OID(o) for o in args[0]]))
            return tuple(_vb(v) for v in res), None
        if name == "set":
            res = drive.run(client.set(OID(args[0]), to_lib_value(*args[1])))
            return norm_value(res), None
        if name == "multiset":
            mapping = {OID(o): to_lib_value(*v) for o, v in args[0]}
            res = drive.run(client.multiset(mapping))
            return tuple((norm_oid(k), norm_value(v)) for k, v in res.items()), None
        if name == "bulkget":
            res = drive.run(
                client.bulkget(
                    [OID(o) for o in args[0]], [OID(o) for o in args[1]], args[2]
                )
            )
            return (
                ("scalars", tuple((norm_oid(k), norm_value(v)) for k, v in res.scalars.items())),
                ("listing", tuple((norm_oid(k), norm_value(v)) for k, v in res.listing.items())),
            ), None
        if name == "walk":
            kw = {"errors": args[1]} if len(args) > 1 else {}
            items, exc = drive.drain(client.walk(OID(args[0]), **kw), WALK_LIMIT)
            return tuple(_vb(v) for v in items), exc
        if name == "multiwalk":
            kw = {"errors": args[1]} if len(args) > 1 else {}
            items, exc = drive.drain(
                client.multiwalk([OID(o) for o in args[0]], **kw), WALK_LIMIT
            )
            return tuple(_vb(v) for v in items), exc
        if name == "bulkwalk":
            items, exc = drive.drain(
                client.bulkwalk([OID(o) for o in args[0]], bulk_size=args[1]), WALK_LIMIT
            )
            return tuple(_vb(v) for v in items), exc
        if name == "table":
            res = drive.run(client.table(OID(args[0])))
            return tuple(sorted(_row(r) for r in res)), None
        if name == "bulktable":
            res = drive.run(client.bulktable(OID(args[0]), bulk_size=args[1]))
            return tuple(sorted(_row(r) for r in res)), None
        raise drive.HarnessError("unknown operation %r" % (name,))
    except drive.HarnessError:
        raise
    except Exception as exc:  # noqa - outcomes of the code under test
        return None, exc


def exc_sig(exc):
    """hashable description of an exception outcome"""
    if exc is None:
        return None
    return type(exc).__name__
