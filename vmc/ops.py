"""
Uniform way to run every public Client operation loop-free and to normalise
its result into reference values (nested tuples, hashable).

An operation is a tuple ``(name, *args)`` with OIDs as int tuples and values as
reference ``(kind, value)`` pairs, so that cases are JSON-able.
"""

from . import drive
from .world import OID, norm_oid, norm_value, to_lib_value

WALK_LIMIT = 10_000


def _vb(vb):
    return (norm_oid(vb[0]), norm_value(vb[1]))


def _row(row):
    out = []
    for k, v in row.items():
        if k == "0":
            out.append((k, ("index", v)))
        else:
            out.append((k, norm_value(v)))
    return tuple(sorted(out))


def tup(x):
    if isinstance(x, list):
        return tuple(tup(i) for i in x)
    if isinstance(x, tuple):
        return tuple(tup(i) for i in x)
    return x


class ArgumentsMutated(Exception):
    """the library changed a list / mapping the caller passed in (the caller's
    next call with the same object would ask for something else)"""


def _unchanged(before, after, what):
    if list(before) != list(after):
        raise ArgumentsMutated("%s changed from %r to %r" % (what, before, after))


def _fresh_str(s):
    """an equal string that is a different object (callers get the mode from
    configuration files and command lines, not from the library's constant)"""
    return "".join(list(s))


def run_op(client, op):
    """-> (result, exc).  result is normalised (hashable) or None.
    For walk-type operations the items yielded before an exception are kept
    in result as well."""
    name, args = op[0], op[1:]
    try:
        if name == "get":
            return norm_value(drive.run(client.get(OID(args[0])))), None
        if name == "multiget":
            oids = [OID(o) for o in args[0]]
            keep = list(oids)
            res = drive.run(client.multiget(oids))
            _unchanged(keep, oids, "multiget oids")
            return tuple(norm_value(v) for v in res), None
        if name == "getnext":
            return _vb(drive.run(client.getnext(OID(args[0])))), None
        if name == "multigetnext":
            oids = [OID(o) for o in args[0]]
            keep = list(oids)
            res = drive.run(client.multigetnext(oids))
            _unchanged(keep, oids, "multigetnext oids")
            return tuple(_vb(v) for v in res), None
        if name == "set":
            res = drive.run(client.set(OID(args[0]), to_lib_value(*args[1])))
            return norm_value(res), None
        if name == "multiset":
            mapping = {OID(o): to_lib_value(*v) for o, v in args[0]}
            keep = list(mapping.items())
            res = drive.run(client.multiset(mapping))
            _unchanged(keep, mapping.items(), "multiset mapping")
            return tuple((norm_oid(k), norm_value(v)) for k, v in res.items()), None
        if name == "bulkget":
            scalar, repeating = [OID(o) for o in args[0]], [OID(o) for o in args[1]]
            keep = (list(scalar), list(repeating))
            res = drive.run(client.bulkget(scalar, repeating, args[2]))
            _unchanged(keep[0], scalar, "bulkget scalar_oids")
            _unchanged(keep[1], repeating, "bulkget repeating_oids")
            return (
                ("scalars", tuple((norm_oid(k), norm_value(v)) for k, v in res.scalars.items())),
                ("listing", tuple((norm_oid(k), norm_value(v)) for k, v in res.listing.items())),
            ), None
        if name == "walk":
            kw = {"errors": _fresh_str(args[1])} if len(args) > 1 else {}
            items, exc = drive.drain(client.walk(OID(args[0]), **kw), WALK_LIMIT)
            return tuple(_vb(v) for v in items), exc
        if name == "multiwalk":
            kw = {"errors": _fresh_str(args[1])} if len(args) > 1 else {}
            oids = [OID(o) for o in args[0]]
            keep = list(oids)
            items, exc = drive.drain(client.multiwalk(oids, **kw), WALK_LIMIT)
            if exc is None:
                _unchanged(keep, oids, "multiwalk oids")
            return tuple(_vb(v) for v in items), exc
        if name == "bulkwalk":
            oids = [OID(o) for o in args[0]]
            keep = list(oids)
            items, exc = drive.drain(client.bulkwalk(oids, bulk_size=args[1]), WALK_LIMIT)
            if exc is None:
                _unchanged(keep, oids, "bulkwalk oids")
            return tuple(_vb(v) for v in items), exc
        if name == "table":
            res = drive.run(client.table(OID(args[0])))
            return tuple(sorted(_row(r) for r in res)), None
        if name == "bulktable":
            res = drive.run(client.bulktable(OID(args[0]), bulk_size=args[1]))
            return tuple(sorted(_row(r) for r in res)), None
        raise drive.HarnessError("unknown operation %r" % (name,))
    except drive.HarnessError:
        raise
    except Exception as exc:  # noqa - outcomes of the code under test
        return None, exc


def exc_sig(exc):
    """hashable description of an exception outcome"""
    if exc is None:
        return None
    return type(exc).__name__
