"""
Glue between the real client and the reference environment.

This is the only place (besides the check modules) that imports puresnmp; it
must be imported *after* ``clock.install()``.
"""

import logging
import os
import sys
import warnings

from . import clock
from .drive import HarnessError, ScenarioUnavailable  # noqa

REPO_SRC = os.environ.get("VERIF_REPO_SRC", "/repo/src")
PLUGIN_DIR = os.path.join(os.path.dirname(os.path.abspath(__file__)), "plugins")

_ready = False


class _Capture(logging.Handler):
    def __init__(self):
        super().__init__(level=logging.DEBUG)
        self.records = []

    def emit(self, record):
        # format like any real handler would (lazy "%s" arguments are only
        # evaluated here); a failure inside is reported by logging itself and
        # never reaches the caller
        try:
            record.getMessage()
        except Exception:  # noqa
            pass
        if record.levelno >= logging.WARNING and len(self.records) < 1000:
            self.records.append(record)


LOGCAP = _Capture()


def setup():
    """Install the clock, put the repository and the harness plug-ins on the
    path, import puresnmp, capture its logging."""
    global _ready
    if _ready:
        return
    clock.install()
    for p in (PLUGIN_DIR, REPO_SRC):
        if p in sys.path:
            sys.path.remove(p)
        sys.path.insert(0, p)
    warnings.filterwarnings("ignore", message="Experimental SNMPv1 support")
    import puresnmp  # noqa

    src = os.path.realpath(os.path.dirname(os.path.dirname(puresnmp.__file__)))
    if src != os.path.realpath(REPO_SRC):
        raise HarnessError("puresnmp imported from %s, not %s" % (src, REPO_SRC))
    # The plug-in discovery of the library is guarded by a non-reentrant
    # threading.Lock.  The harnesses are single-threaded, but clean-up code run
    # by the garbage collector (a discarded generator or coroutine) may re-enter
    # discovery while it is in progress and would dead-lock the worker.
    try:
        import threading

        import puresnmp.plugins.pluginbase as _pb

        if hasattr(_pb, "DISCOVERY_LOCK"):
            _pb.DISCOVERY_LOCK = threading.RLock()
    except ImportError:
        pass
    for name in ("puresnmp", "puresnmp_plugins"):
        lg = logging.getLogger(name)
        lg.addHandler(LOGCAP)
        lg.propagate = False
        lg.setLevel(logging.WARNING)
    _ready = True


def set_lib_log_level(name):
    """The application's logging configuration is part of the environment: a
    shard may run with the library's loggers at DEBUG (hex dumps, pretty
    printed messages - code that only runs then).  -> previous level name"""
    level = getattr(logging, name or "WARNING")
    for n in ("puresnmp", "puresnmp_plugins"):
        logging.getLogger(n).setLevel(level)


# ---------------------------------------------------------------------------
# normalisation of library objects into reference values
# ---------------------------------------------------------------------------

_CLASS_KIND = None


def _class_kind():
    global _CLASS_KIND
    if _CLASS_KIND is None:
        import puresnmp.pdu as pdu
        import puresnmp.types as t
        import x690.types as xt

        _CLASS_KIND = {
            xt.Integer: "int",
            xt.OctetString: "str",
            xt.Null: "null",
            xt.ObjectIdentifier: "oid",
            t.IpAddress: "ip",
            t.Counter: "c32",
            t.Gauge: "g32",
            t.TimeTicks: "tt",
            t.Opaque: "opaque",
            t.Counter64: "c64",
            pdu.NoSuchObject: "nso",
            pdu.NoSuchInstance: "nsi",
            pdu.EndOfMibView: "eomv",
        }
    return _CLASS_KIND


def norm_oid(oid):
    from x690.types import ObjectIdentifier

    if type(oid) is not ObjectIdentifier:
        return ("!notoid", repr(oid))
    v = oid.value
    return tuple(int(x) for x in v.split(".")) if v else ()


def norm_value(obj):
    """library value object -> reference (kind, value); exact class match."""
    kind = _class_kind().get(type(obj))
    if kind is None:
        return ("!" + type(obj).__module__ + "." + type(obj).__name__, repr(obj))
    v = obj.value
    if kind in ("null", "nso", "nsi", "eomv"):
        return (kind, None if v is None or v == b"" else ("!", repr(v)))
    if kind == "oid":
        return (kind, tuple(int(x) for x in v.split(".")) if v else ())
    if kind == "ip":
        import ipaddress

        if not isinstance(v, ipaddress.IPv4Address):
            return ("!ip", repr(v))
        return (kind, v.packed)
    if kind in ("str", "opaque"):
        return (kind, bytes(v))
    return (kind, v)


def to_lib_value(kind, value):
    """reference (kind, value) -> library value object (for SET arguments)"""
    import ipaddress

    import puresnmp.pdu as pdu
    import puresnmp.types as t
    import x690.types as xt

    if kind == "int":
        return xt.Integer(value)
    if kind == "str":
        return xt.OctetString(value)
    if kind == "null":
        return xt.Null()
    if kind == "oid":
        return xt.ObjectIdentifier(".".join(str(a) for a in value))
    if kind == "ip":
        return t.IpAddress(ipaddress.IPv4Address(bytes(value)))
    if kind == "c32":
        return t.Counter(value)
    if kind == "g32":
        return t.Gauge(value)
    if kind == "tt":
        return t.TimeTicks(value)
    if kind == "opaque":
        return t.Opaque(value)
    if kind == "c64":
        return t.Counter64(value)
    raise HarnessError("cannot build library value of kind %r" % kind)


def OID(arcs):
    from x690.types import ObjectIdentifier

    if isinstance(arcs, str):
        return ObjectIdentifier(arcs)
    return ObjectIdentifier(".".join(str(a) for a in arcs))


# ---------------------------------------------------------------------------
# senders
# ---------------------------------------------------------------------------


class DirectSender:
    """An async callable for Client(sender=...) that asks the agent at once.
    Records every call (endpoint, packet, kwargs)."""

    def __init__(self, handle):
        self.handle = handle
        self.calls = []
        self.limit = None

    async def __call__(self, endpoint, packet, **kwargs):
        self.calls.append((endpoint, packet, kwargs))
        if self.limit is not None and len(self.calls) > self.limit:
            raise Horizon("request horizon %d exceeded" % self.limit)
        return self.handle(packet)


class Horizon(BaseException):
    """Raised by the environment when an execution exceeds its horizon; a
    BaseException so that no ``except Exception`` in the library eats it."""


_SENDERS = None


def make_client(credentials, handle, **kwargs):
    from puresnmp import Client

    global _SENDERS
    if _SENDERS is None:
        import weakref

        _SENDERS = weakref.WeakKeyDictionary()
    sender = DirectSender(handle)
    client = Client("192.0.2.1", credentials, sender=sender, **kwargs)
    try:
        _SENDERS[client] = sender
    except TypeError:  # a client that cannot be weakly referenced
        pass
    return client, sender


def sender_of(client):
    """the harness sender a client was built with (where the client keeps it
    is its own business)"""
    s = _SENDERS.get(client) if _SENDERS is not None else None
    return s if s is not None else client.sender


def exc_name(exc):
    return type(exc).__name__ if exc is not None else None


# ---------------------------------------------------------------------------
# SNMPv3 helpers
# ---------------------------------------------------------------------------

V3_LEVELS = ("noAuthNoPriv", "authNoPriv", "authPriv")


def v3_user(level, method="md5", priv="vstream", name=b"alice", auth_pw=b"authpass-alice", priv_pw=b"privpass-alice"):
    """-> (reference User, puresnmp V3 credentials)"""
    from puresnmp.credentials import V3, Auth, Priv

    from .ref import usm

    if level == "noAuthNoPriv":
        return usm.User(name), V3(name.decode("ascii"))
    if level == "authNoPriv":
        return usm.User(name, (method, auth_pw)), V3(name.decode("ascii"), Auth(auth_pw, method))
    if level == "authPriv":
        return (
            usm.User(name, (method, auth_pw), (priv, priv_pw)),
            V3(name.decode("ascii"), Auth(auth_pw, method), Priv(priv_pw, priv)),
        )
    raise HarnessError(level)


def reset_plugins():
    from .ref import usm

    for name in ("vstream", "vblock", "vrecord", "vsalt16", "vsalt0"):
        mod = sys.modules.get("puresnmp_plugins.priv." + name)
        if mod is not None:
            mod.reset()
        if name in usm._PLUGINS:
            usm._PLUGINS[name].reset()


def make_v3(db, level, method="md5", priv="vstream", **agent_kw):
    """-> (client, sender, agent): real client wired to a reference v3 agent
    on the shared virtual clock"""
    from .ref import agent as ragent

    user, creds = v3_user(level, method, priv)
    ag = ragent.V3Agent(db, [user], clock=lambda: clock.CLOCK.now, **agent_kw)
    client, sender = make_client(creds, ag.handle)
    return client, sender, ag


def v3_auth_facts(facts, exc, agent):
    """When a call ended with AuthenticationError, record (from the reference
    side only) whether the last authentic response of the agent is one whose
    parse/re-serialise round trip changes the bytes (known finding)."""
    if type(exc).__name__ != "AuthenticationError":
        return
    from .ref import snmp

    sent = [e for e in agent.log if e.get("verdict") == "ok" and "sent" in e]
    if sent:
        facts["authentic_response_reserialisation_differs"] = snmp.reserialisation_differs(sent[-1]["sent"])
