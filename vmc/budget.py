"""
CPU-time guard for mutation-based checks: run a callable under
``ITIMER_VIRTUAL`` (process CPU time, immune to machine load).  When the
budget is exhausted the handler raises ``BudgetExceeded`` (a BaseException, so
that no ``except Exception`` of the code under test swallows it) and records
the innermost frames for the known-finding signature.
"""

import signal
import traceback


class BudgetExceeded(BaseException):
    def __init__(self, frames):
        super().__init__("CPU budget exceeded")
        self.frames = frames


_armed = [False]
_first = [None]  # the first expiry within the current guarded call
REFIRE = 0.02  # s of CPU time between repeated expiries
stats = {"expiries_swallowed": 0}


def _handler(signum, frame):
    if not _armed[0]:
        # a timer signal that was already on its way when the guarded call
        # finished: ignore it (it must never fire outside the guarded region)
        return
    if _first[0] is None:
        frames = []
        f = frame
        while f is not None and len(frames) < 12:
            frames.append("%s:%s" % (f.f_code.co_filename.rsplit("/", 2)[-2] + "/" + f.f_code.co_filename.rsplit("/", 1)[-1], f.f_code.co_name))
            f = f.f_back
        _first[0] = BudgetExceeded(frames)
    else:
        stats["expiries_swallowed"] += 1
    # The exception may be raised where Python discards it (a weak reference
    # callback, __del__, a generator being finalised) or be swallowed by a bare
    # ``except:`` of the code under test: keep firing until the guarded call
    # has really ended.
    signal.setitimer(signal.ITIMER_VIRTUAL, REFIRE)
    raise _first[0]


_installed = False


def run(fn, seconds):
    """-> (value, None) or (None, BudgetExceeded)"""
    global _installed
    if not _installed:
        signal.signal(signal.SIGVTALRM, _handler)
        _installed = True
    _first[0] = None
    value = None
    _armed[0] = True
    signal.setitimer(signal.ITIMER_VIRTUAL, seconds)
    try:
        try:
            value = fn()
        finally:
            _armed[0] = False
    except BudgetExceeded:
        pass
    finally:
        _armed[0] = False
        signal.setitimer(signal.ITIMER_VIRTUAL, 0)
    if _first[0] is not None:
        exc, _first[0] = _first[0], None
        return None, exc
    return value, None
