"""
Virtual-time asyncio event loop, fake datagram transports and a controlled
sender.

``VLoop`` is a real ``asyncio.BaseEventLoop`` (stock Task / Future /
``wait_for`` / ``ensure_future`` / ``run_until_complete``) whose ``_run_once``
is replaced: time is the harness' virtual clock, it never blocks, and when
several timers are due at the same instant the harness decides their order
(``tie_break``).  Nothing here imports puresnmp.
"""

import asyncio
import contextvars
import heapq
import sys
import threading
from asyncio import base_events, events
from contextlib import contextmanager

from .clock import CLOCK
from .drive import HarnessError


class Stalled(Exception):
    """No ready callback and no timer: the loop would block for ever."""


class VLoop(base_events.BaseEventLoop):
    def __init__(self):
        super().__init__()
        self._clock_resolution = 0.0
        self.transports = []
        self.logged = []  # contexts passed to the exception handler
        self.tie_break = None  # callable(list of due TimerHandles) -> list
        self.before_advance = None  # callable(loop, when) before time moves
        self.steps = 0
        self.set_exception_handler(lambda loop, ctx: self.logged.append(ctx))

    # -- time -------------------------------------------------------------
    def time(self):
        return CLOCK.mono

    # -- never used: we do not own a selector -------------------------------
    def _process_events(self, event_list):  # pragma: no cover
        pass

    def _write_to_self(self):
        pass

    # -- the heart ------------------------------------------------------------
    def _drop_cancelled_head(self):
        sched = self._scheduled
        while sched and sched[0]._cancelled:
            self._timer_cancelled_count -= 1
            h = heapq.heappop(sched)
            h._scheduled = False

    def next_timer(self):
        self._drop_cancelled_head()
        return self._scheduled[0]._when if self._scheduled else None

    def _run_once(self):
        self.steps += 1
        self._drop_cancelled_head()
        sched = self._scheduled
        if not self._ready:
            if not sched:
                raise Stalled("event loop has nothing to do")
            when = sched[0]._when
            if when > CLOCK.mono:
                if self.before_advance is not None:
                    self.before_advance(self, when)
                    if self._ready:
                        when = None
                if when is not None:
                    self._drop_cancelled_head()
                    if sched:
                        CLOCK.set_mono(sched[0]._when)
        due = []
        now = CLOCK.mono
        while sched and sched[0]._when <= now:
            h = heapq.heappop(sched)
            h._scheduled = False
            if h._cancelled:
                self._timer_cancelled_count -= 1
                continue
            due.append(h)
        if len(due) > 1 and self.tie_break is not None:
            due = self.tie_break(due)
        self._ready.extend(due)
        for _ in range(len(self._ready)):
            h = self._ready.popleft()
            if h._cancelled:
                continue
            h._run()
        h = None

    # -- manual stepping --------------------------------------------------------
    @contextmanager
    def running(self):
        """make this the running loop without run_forever()"""
        self._check_closed()
        self._check_running()
        old_hooks = sys.get_asyncgen_hooks()
        self._thread_id = threading.get_ident()
        sys.set_asyncgen_hooks(firstiter=self._asyncgen_firstiter_hook, finalizer=self._asyncgen_finalizer_hook)
        events._set_running_loop(self)
        try:
            yield self
        finally:
            self._thread_id = None
            events._set_running_loop(None)
            sys.set_asyncgen_hooks(*old_hooks)

    def run_ready(self, limit=100000):
        """run callbacks until nothing is ready (virtual time stands still)"""
        n = 0
        while self._ready:
            self._run_once()
            n += 1
            if n > limit:
                raise HarnessError("event loop does not go quiescent")
        return n

    def run_until_idle(self, horizon=None, limit=100000):
        """run callbacks and timers (advancing virtual time) until neither is
        left or the next timer lies beyond *horizon*"""
        n = 0
        while True:
            self.run_ready()
            nxt = self.next_timer()
            if nxt is None or (horizon is not None and nxt > horizon):
                return
            self._run_once()
            n += 1
            if n > limit:
                raise HarnessError("event loop does not go idle")

    def pending_timers(self):
        return [h for h in self._scheduled if not h._cancelled]

    # -- datagram endpoints ----------------------------------------------------------
    async def create_datagram_endpoint(self, protocol_factory, local_addr=None, remote_addr=None, **kwargs):
        if getattr(self, "endpoint_delay", 0):
            # name resolution / socket set-up that takes (virtual) time
            await asyncio.sleep(self.endpoint_delay)
        protocol = protocol_factory()
        transport = FakeDatagramTransport(self, protocol, local_addr, remote_addr)
        self.transports.append(transport)
        waiter = self.create_future()
        # as asyncio's selector datagram transport does
        self.call_soon(protocol.connection_made, transport)
        self.call_soon(_set_result_unless_cancelled, waiter)
        await waiter
        return transport, protocol

    def close(self):
        if not self.is_closed():
            super().close()


def _set_result_unless_cancelled(fut):
    if not fut.cancelled():
        fut.set_result(None)


class FakeDatagramTransport(asyncio.DatagramTransport):
    """Models the contract of asyncio's selector datagram transport: close()
    and abort() schedule connection_lost(None) once; nothing is delivered
    after close (the kernel would not either)."""

    def __init__(self, loop, protocol, local_addr, remote_addr):
        super().__init__()
        self.loop = loop
        self.protocol = protocol
        self.local_addr = local_addr
        self.remote_addr = remote_addr
        self.sent = []  # (virtual time, payload, addr)
        self.closing = False
        self.close_calls = []  # ("close"|"abort"|"lost", time)
        self.dropped = []  # datagrams that arrived after close
        self.on_sendto = None
        self.created_at = CLOCK.mono
        self.lost_called = False

    # -- what the library calls --------------------------------------------
    def sendto(self, data, addr=None):
        if self.closing:
            return
        self.sent.append((CLOCK.mono, bytes(data), addr))
        hook = self.on_sendto or getattr(self.loop, "on_sendto", None)
        if hook is not None:
            hook(self, bytes(data))

    def close(self):
        self.close_calls.append(("close", CLOCK.mono))
        self._shutdown(None)

    def abort(self):
        self.close_calls.append(("abort", CLOCK.mono))
        self._shutdown(None)

    def _shutdown(self, exc):
        if self.closing:
            return
        self.closing = True
        self.loop.call_soon(self._call_connection_lost, exc)

    def _call_connection_lost(self, exc):
        self.lost_called = True
        self.protocol.connection_lost(exc)

    def is_closing(self):
        return self.closing

    def get_extra_info(self, name, default=None):
        if name == "peername":
            return self.remote_addr if self.remote_addr is not None else default
        if name == "sockname":
            return self.local_addr if self.local_addr is not None else default
        return default

    # -- what the environment does ----------------------------------------------
    def inject_datagram(self, data, addr=None):
        if addr is None:
            # the peer the socket is connected to, as the OS reports it: a
            # 2-tuple for IPv4, a 4-tuple (flow info, scope id) for IPv6
            addr = ("192.0.2.1", 161)
            if self.remote_addr is not None:
                host, port = self.remote_addr[0], self.remote_addr[1]
                addr = (host, port, 0, 0) if ":" in str(host) else (host, port)
        if self.closing:
            self.dropped.append((CLOCK.mono, bytes(data)))
            return False
        self.protocol.datagram_received(bytes(data), addr)
        return True

    def inject_error(self, exc):
        """ICMP port unreachable & co: asyncio calls error_received and keeps
        the transport open"""
        if self.closing:
            return False
        self.protocol.error_received(exc)
        return True

    def inject_connection_lost(self, exc):
        """fatal socket error: asyncio force-closes the transport and reports
        the exception through connection_lost"""
        if self.closing:
            return False
        self.close_calls.append(("lost", CLOCK.mono))
        self._shutdown(exc)
        return True


# Which harness-level operation a sender call belongs to.  Set with ``owned()``
# at the start of the operation's task; tasks the library creates on the way
# (it is free to) inherit the context of the task that created them.
OWNER = contextvars.ContextVar("vmc_owner", default=None)


async def owned(name, coro):
    OWNER.set(name)
    return await coro


class ControlledSender:
    """``Client(sender=...)``: every call is parked as a pending request; the
    harness decides which pending request the agent answers next."""

    def __init__(self, loop):
        self.loop = loop
        self.pending = []  # dicts: task, packet, kwargs, future, endpoint, seq
        self.seq = 0
        self.calls = []

    async def __call__(self, endpoint, packet, **kwargs):
        task = asyncio.current_task()
        fut = self.loop.create_future()
        self.seq += 1
        entry = {"task": OWNER.get() or (task.get_name() if task else None), "packet": bytes(packet), "kwargs": kwargs, "future": fut, "endpoint": endpoint, "seq": self.seq}
        self.pending.append(entry)
        self.calls.append((endpoint, bytes(packet), kwargs))
        return await fut

    def answer(self, index, data=None, exc=None):
        entry = self.pending.pop(index)
        if exc is not None:
            entry["future"].set_exception(exc)
        else:
            entry["future"].set_result(data)
        return entry
