import json,glob,os
p='/verif/DESIGN.md'
s=open(p).read()
if '## 10. As built' in s:
    s=s[:s.index('\n\n## 10. As built')]
old=s[s.index('Status of this document:'):s.index('Contents\n')]
new='''Status of this document: sections 1-9 were written before any framework code
and fix, for each of the 20 given properties (`properties.jsonl`, C01..C20, not
edited), what is enumerated, against which oracle, within which bounds. The
machinery has since been built; **section 10 records what was built and where
it deviates from the plan, section 11 the defects found (repaired or recorded),
section 12 the false alarms of the machinery that were corrected, section 13
the seeded regressions and which check catches which, section 14 the trials
with behaviour-preserving changes (no check may report those).** Where a number in
sections 1-9 is marked "≈" it was an estimate; the evidence files carry the
measured numbers.

'''
s=s.replace(old,new)
if '10. As built: layout' not in s:
    s=s.replace('''9. Defects already visible while reading (to be confirmed by the checks)
''','''9. Defects already visible while reading (to be confirmed by the checks)
10. As built: layout, tiers, deviations from the plan
11. Findings: repaired defects and open known findings
12. False alarms of the machinery and how they were corrected
13. Seeded regressions: which check catches which change
14. Behaviour-preserving changes: does any check cry wolf?
''',1)
if '14. Behaviour-preserving changes: does' not in s.split('## 1. What')[0]:
    s=s.replace('13. Seeded regressions: which check catches which change\n','13. Seeded regressions: which check catches which change\n14. Behaviour-preserving changes: does any check cry wolf?\n',1)
rows=[]
for d in sorted(glob.glob('/verif/seeded/*/meta.json')):
    m=json.load(open(d))
    rows.append('| %s | %s | %s | %s |' % (m['id'], m['property'], m['needs_to_manifest'], ', '.join(m.get('detected_by',[])) or '-'))
kf=json.load(open('/verif/known_findings.json'))
fixed='\n'.join('* `%s`' % f for f in kf['fixed'])
openkf=('\n'.join('* **%s** (%s): %s' % (f['id'], f.get('property') or ', '.join(f.get('properties',[])), f['what']) for f in kf['open']) or 'None at present: every defect found so far has been repaired (`known_findings.json` has an empty `open` list; the mechanism stays in place).')
body=open('/verif/doc/design_tail.md.tmpl').read()
brows=[]
for d in sorted(glob.glob('/verif/benign/*/meta.json')):
    m=json.load(open(d))
    al=', '.join(m.get('alarms',[])) or 'none'
    if not m.get('behaviour_preserving', True):
        al += ' (rightly: the change does not preserve the property, see above)'
    brows.append('| %s | %s | %s |' % (m['id'], m['what'].split(' — ',1)[-1].split(' - ',1)[-1][:160], al))
body=body.replace('@@BENIGN@@','\n'.join(brows))
body=body.replace('@@FIXED@@',fixed).replace('@@OPEN@@',openkf).replace('@@MATRIX@@','\n'.join(rows))
s=s+body
open(p,'w').write(s)
print(len(s.splitlines()))
